#!/usr/bin/env python3
"""Regenerates MANIFEST.json from plans.py (claimed checks) and properties.jsonl (ids); properties without a plan
are listed under not_applicable with the reason given in NOT_CLAIMED below."""
import json
import os
import sys

ROOT = os.path.dirname(os.path.abspath(__file__))
sys.path.insert(0, ROOT)
from plans import PLANS  # noqa: E402

NOT_CLAIMED = {}
DEFAULT_REASON = "check under construction (not yet registered); TLA+ model-based check planned per DESIGN.md section 5"

ids = [json.loads(l)["id"] for l in open(os.path.join(ROOT, "properties.jsonl"))]
checks = []
na = []
for pid in ids:
    plan = PLANS.get(pid)
    if not plan:
        na.append({"property_id": pid, "reason": NOT_CLAIMED.get(pid, DEFAULT_REASON)})
        continue
    checks.append({
        "property_id": pid,
        "quick_cmd": "./check %s --tier quick" % pid,
        "thorough_cmd": "./check %s --tier thorough" % pid,
        "evidence_file": "/verif/evidence/%s.json" % pid,
        "replay_cmd_template": "./check replay {path}",
        "engine": "tlc+dltv",
        "level_claimed": {
            "category": "model_checking",
            "text": plan["explanation"],
            "design_ref": plan.get("design_ref", "DESIGN.md section 5, " + pid),
        },
        "level_note": plan.get("level_note", "TLC explores the TLA+ model exhaustively within the stated bounds; the Rust code is bound to the model by replaying every "
                      "TLC-generated case into it (direction A) and by TLC validating NDJSON traces recorded from it (direction B) - the code is observed only on those "
                      "executions. Trusted: TLC/SANY/CommunityModules, the structural projection in harness/src/proj.rs and unproj.rs, rustc/std."),
        "technique": plan.get("technique", "explicit TLA+ specification; TLC exhaustive model checking of bounded instances; TLC-generated cases replayed into the code; "
                     "recorded code traces validated against the specification by TLC"),
    })
manifest = {
    "version": 1,
    "setup_cmd": "./check setup",
    "hooks": {
        "guard": "dlt_core_verif",
        "enable": "no source hooks are needed: dlt-core is a sequential library, every observation point is public API and the harness owns the byte sources "
                  "(RUSTFLAGS --cfg dlt_core_verif is reserved and unused)",
        "baseline_off_cmd": "cd /repo && cargo test --workspace --no-fail-fast --offline",
        "source_commits": [],
        "add_only": True,
    },
    "engines": [
        {"name": "tlc+dltv", "path": "/verif/check", "serves_properties": [c["property_id"] for c in checks],
         "kind_free_text": "python3 orchestrator: TLC (model checking, case generation, trace validation) over /verif/spec, Rust harness /verif/harness (dltv) built against /repo's working tree"},
    ],
    "checks": checks,
    "notes": "See DESIGN.md. Specification: /verif/spec (modules), /verif/spec/mc (bounded instances / generators), /verif/spec/trace (trace specifications). "
             "Genuine defects found and repaired are listed in known_findings.json (status fixed).",
    "not_applicable": na,
}
with open(os.path.join(ROOT, "MANIFEST.json"), "w") as f:
    json.dump(manifest, f, indent=1)
print("MANIFEST.json: %d checks, %d not claimed" % (len(checks), len(na)))
