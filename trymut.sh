#!/bin/bash
# usage: trymut.sh <patch> <ID>...   apply a patch to /repo, run the named checks (quick), undo the patch
patch=$(readlink -f $1); shift
git -C /repo apply $patch || { echo "patch does not apply"; exit 2; }
for id in "$@"; do
  out=$(cd /verif && ./check $id 2>&1); rc=$?
  echo "$id rc=$rc $(echo "$out" | grep -c VIOLATION) violation line(s): $(echo "$out" | grep -v VIOLATION | tail -1 | cut -c1-200)"
done
git -C /repo checkout -- . 
git -C /repo status --short | grep -v README
