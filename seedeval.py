#!/usr/bin/env python3
"""seedeval.py <PROP> <A|B> [extra check ids...] - confirm one seeded change delivered by a sub-agent in /tmp/wt_<PROP> and
evaluate the checks against it.
  1. in the scratch worktree: apply the patch; the crate's own tests must pass (default features and fibex,statistics,stream);
     the demonstration must fail; undo; the demonstration must pass.
  2. apply the patch to /repo, run ./check <PROP> (quick) [and the extra ids], undo it straight afterwards.
  3. if confirmed: keep it as /verif/seeded/<PROP>_<X>/ (patch.diff, demo, meta.json)."""
import json
import os
import re
import shutil
import subprocess
import sys
import time

pid, var = sys.argv[1], sys.argv[2]
extra = sys.argv[3:]
wt = "/tmp/wt_%s" % pid
srcvar = os.environ.get("SEED_SRCVAR", var)     # the letter the sub-agent used in its file names (round 5: G/H/I kept as J/K/L)
patch = "%s/seeded_%s_%s.patch" % (wt, pid, srcvar)
demo = "%s/tests/seeded_demo_%s_%s.rs" % (wt, pid, srcvar)
FEAT = ["--features", "fibex,statistics,stream"]


def sh(cmd, cwd=None, timeout=3000):
    p = subprocess.run(cmd, cwd=cwd, stdout=subprocess.PIPE, stderr=subprocess.STDOUT, text=True, timeout=timeout, env=dict(os.environ, CARGO_NET_OFFLINE="true"))
    return p.returncode, p.stdout


def tests_ok(out):
    return all("0 failed" in l for l in out.splitlines() if l.startswith("test result:")) and "test result:" in out


d = "/verif/seeded/%s_%s" % (pid, var)
MODE = os.environ.get("SEED_MODE", "both")     # confirm | check | both
if MODE == "check":
    meta = json.load(open(d + "/meta.json"))
    assert meta.get("confirmed"), "not confirmed yet"
    patch = d + "/patch.diff"
else:
  assert os.path.exists(patch) and os.path.exists(demo), "missing patch or demo"
  # move the other demo files out of the way while running the crate's own suite
  others = [f for f in os.listdir(wt + "/tests") if f.startswith("seeded_demo_")]
  stash = wt + "/.demo_stash"
  os.makedirs(stash, exist_ok=True)
  for f in others:
    shutil.move(wt + "/tests/" + f, stash + "/" + f)
  meta = {"property": pid, "variant": var}
  try:
      sh(["git", "checkout", "--", "src"], cwd=wt)
      rc, out = sh(["git", "apply", patch], cwd=wt)
      assert rc == 0, "patch does not apply: " + out
      rc1, o1 = sh(["cargo", "test", "--workspace", "--no-fail-fast", "--offline"], cwd=wt)
      rc2, o2 = sh(["cargo", "test", "--workspace", "--no-fail-fast", "--offline"] + FEAT, cwd=wt)
      meta["existing_tests_pass_with_change"] = rc1 == 0 and tests_ok(o1)
      meta["existing_tests_pass_with_change_all_features"] = rc2 == 0 and tests_ok(o2)
      shutil.copy(stash + "/" + os.path.basename(demo), demo)
      rc3, o3 = sh(["cargo", "test", "--offline", "--test", os.path.basename(demo)[:-3]] + FEAT, cwd=wt)
      meta["demo_fails_with_change"] = rc3 != 0
      sh(["git", "checkout", "--", "src"], cwd=wt)
      rc4, o4 = sh(["cargo", "test", "--offline", "--test", os.path.basename(demo)[:-3]] + FEAT, cwd=wt)
      meta["demo_passes_without_change"] = rc4 == 0
  finally:
      sh(["git", "checkout", "--", "src"], cwd=wt)
      for f in others:
          if os.path.exists(stash + "/" + f):
              shutil.move(stash + "/" + f, wt + "/tests/" + f)
confirmed = all(meta[k] for k in ("existing_tests_pass_with_change", "existing_tests_pass_with_change_all_features", "demo_fails_with_change", "demo_passes_without_change"))
meta["confirmed"] = confirmed
print(json.dumps(meta))
if not confirmed:
    sys.exit(1)
if MODE == "confirm":
    os.makedirs(d, exist_ok=True)
    shutil.copy(patch, d + "/patch.diff")
    shutil.copy(demo, d + "/seeded_demo_%s_%s.rs" % (pid, var))
    old = json.load(open(d + "/meta.json")) if os.path.exists(d + "/meta.json") else {}
    old.update(meta)
    json.dump(old, open(d + "/meta.json", "w"), indent=1)
    sys.exit(0)
# ---- the checks against it
rc, out = sh(["git", "-C", "/repo", "apply", patch])
assert rc == 0, "patch does not apply to /repo: " + out
results = {}
try:
    for cid in [pid] + extra:
        t = time.time()
        rc, out = sh(["./check", cid], cwd="/verif", timeout=3000)
        last = [l for l in out.splitlines() if l.startswith(cid + " ")]
        results[cid] = {"rc": rc, "violation_lines": out.count("VIOLATION property="), "summary": last[-1] if last else out[-300:], "wall_s": round(time.time() - t)}
        print(cid, results[cid])
finally:
    sh(["git", "-C", "/repo", "checkout", "--", "."])
meta["checks_quick"] = results
meta["detected_by_own_check"] = results[pid]["rc"] == 1
os.makedirs(d, exist_ok=True)
if MODE != "check":
    shutil.copy(patch, d + "/patch.diff")
    shutil.copy(demo, d + "/seeded_demo_%s_%s.rs" % (pid, var))
meta["ran"] = ["cargo test --workspace --no-fail-fast --offline (with change; and with --features fibex,statistics,stream)", "cargo test --offline --test <demo> --features fibex,statistics,stream (with and without change)",
               "git -C /repo apply patch.diff; ./check %s; git -C /repo checkout -- ." % pid]
old = {}
if os.path.exists(d + "/meta.json"):
    old = json.load(open(d + "/meta.json"))
old.update(meta)
json.dump(old, open(d + "/meta.json", "w"), indent=1)
print("DETECTED" if meta["detected_by_own_check"] else "MISSED", pid, var)
