#!/bin/bash
# self-evaluation: sampled seeded changes of rounds 4-9 against the OTHER checks of their family (which checks fire besides the own one?)
cd "$(dirname "$0")"
python3 matrix.py $1 $(cat seeded/crossjobs_$2.txt)
