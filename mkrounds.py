#!/usr/bin/env python3
"""mkrounds.py - regenerate the two tables of DESIGN.md section 13.3 (between the markers) from seeded/*/meta.json."""
import json, glob, collections, re, os
ROOT = os.path.dirname(os.path.abspath(__file__))
NAMES = {1: "specific trigger", 2: "avoid round 1", 3: "aimed at the described checker", 4: "everyday maintenance commits",
         5: 'well-meant behaviour changes ("bug fix", hardening, new support, port, deduplication)', 6: "small local slips with non-local effect",
         7: "changes consistent with themselves (cooperating edits, compensation, state across calls)", 8: "free style over the list of earlier changes as a coverage map",
         9: "free style again, incl. other entry points that lead into the anchored code", 10: "one-edit mutants in the style of a mutation tool (operator, constant, deletion, swap, sibling method)",
         11: "after the relations were narrowed: two changes each at the core clauses of six statements, read literally",
         12: "the twelve other properties: two changes each that need something specific to manifest (sequence, unusual legal input, boundary size, cooperating sites)"}
# round 1 predates the first_run bookkeeping: its two first misses are known from the log only
EXTRA_MISS = {(1, "C01"): 1, (1, "C03"): 1}
R = collections.defaultdict(collections.Counter)
P = collections.defaultdict(collections.Counter)
for f in sorted(glob.glob(ROOT + "/seeded/*/meta.json")):
    m = json.load(open(f))
    rd = m.get("round") or {"A": 1, "B": 1, "C": 2, "D": 2, "E": 3, "F": 3}[m["variant"]]
    fr, nd = m.get("first_run"), bool(m.get("own_check_not_applicable"))
    miss = (fr["rc"] == 0 and not nd) if fr is not None else (m.get("note") or "").startswith("MISSED")
    tool = fr is not None and fr["rc"] not in (0, 1)
    for T, k in ((R, rd), (P, m["breaks_property"])):
        T[k]["n"] += 1; T[k]["miss"] += miss; T[k]["tool"] += tool; T[k]["nd"] += nd
for (rd, p), k in EXTRA_MISS.items():
    R[rd]["miss"] += k; P[p]["miss"] += k
out = ["| round | changes | missed by the own quick check when first evaluated | first evaluation ended as tool error | left alone by the own check on purpose (another check reports it) |", "|---|---|---|---|---|"]
for rd in sorted(R):
    c = R[rd]; out.append("| %d (%s) | %d | %d | %d | %d |" % (rd, NAMES[rd], c["n"], c["miss"], c["tool"], c["nd"]))
out += ["", "(Round 5: two more were strengthened before evaluation from the agent's report.)", "",
        "| property | seeded changes | missed when first evaluated | first evaluation ended as tool error | left alone on purpose |", "|---|---|---|---|---|"]
for p in sorted(P):
    c = P[p]; out.append("| %s | %d | %d | %d | %d |" % (p, c["n"], c["miss"], c["tool"], c["nd"]))
t = collections.Counter()
for c in P.values(): t.update(c)
out.append("| total | %d | %d | %d | %d |" % (t["n"], t["miss"], t["tool"], t["nd"]))
s = open(ROOT + "/DESIGN.md").read()
a, b = "<!-- rounds:begin -->", "<!-- rounds:end -->"
assert a in s and b in s
s = s[:s.index(a) + len(a)] + "\n" + "\n".join(out) + "\n" + s[s.index(b):]
open(ROOT + "/DESIGN.md", "w").write(s)
print(t)
