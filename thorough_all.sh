#!/bin/bash
# self-evaluation: run every thorough command once, record rc and wall time (uses lane T so that evidence in /verif is not touched)
cd "$(dirname "$0")"
LIST="$@"; [ -z "$LIST" ] && LIST="C01 C02 C03 C04 C05 C06 C07 C08 C09 C10 C11 C12 C13 C14 C15 C16 C17 C18 C19"
for c in $LIST; do
  s=$(date +%s)
  out=$(VERIF_LANE=T ./check $c --tier thorough 2>&1); rc=$?
  e=$(date +%s)
  echo "$c rc=$rc wall=$((e-s))s $(echo "$out" | tail -1 | cut -c1-250)"
done
