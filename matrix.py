#!/usr/bin/env python3
"""matrix.py <lane> <mutant:ids,...>... - self-evaluation: run checks against seeded changes on a scratch copy of /repo
(never touches /repo).  Result lines are appended to /verif/out/matrix_<lane>.jsonl."""
import json, os, subprocess, sys, shutil, time
BASE = os.path.dirname(os.path.abspath(__file__))
os.makedirs(BASE + "/out", exist_ok=True)
lane = sys.argv[1]
jobs = sys.argv[2:]
scratch = "/tmp/matrix_repo_" + lane
if not os.path.exists(scratch):
    subprocess.run(["git", "clone", "-q", "/repo", scratch], check=True)
res = open(BASE + "/out/matrix_%s.jsonl" % lane, "a")
for job in jobs:
    mut, ids = job.split(":")
    subprocess.run(["git", "-C", scratch, "checkout", "-q", "--", "."], check=True)
    pf = BASE + "/seeded/%s/patch.diff" % mut
    if not os.path.exists(pf):
        pf = BASE + "/mutants/%s.patch" % mut        # property-preserving changes (DESIGN 13.6) and the reintroduced defects live there
    subprocess.run(["git", "-C", scratch, "apply", pf], check=True)
    for cid in ids.split(","):
        t = time.time()
        p = subprocess.run(["nice", "-n", "10", "./check", cid], cwd=BASE, env=dict(os.environ, VERIF_REPO=scratch, VERIF_LANE=lane), stdout=subprocess.PIPE, stderr=subprocess.STDOUT, text=True)
        line = [l for l in p.stdout.splitlines() if l.startswith(cid + " ")]
        rec = {"mutant": mut, "check": cid, "rc": p.returncode, "summary": (line[-1] if line else p.stdout[-300:]), "wall": round(time.time() - t)}
        res.write(json.dumps(rec) + "\n"); res.flush()
        print(rec["mutant"], rec["check"], rec["rc"], flush=True)
    subprocess.run(["git", "-C", scratch, "checkout", "-q", "--", "."], check=True)
