"""./check selftest - binding demonstration (DESIGN section 9).
For every trace specification: record a small trace from the real code, corrupt ONE recorded field (or drop one
event) and show that TLC rejects exactly that line; feed replay cases with a falsified expected result and show the
mismatch; show that the as-found FIBEX machine (EofRefuses = FALSE) violates the termination property."""
import json
import os
import shutil
import subprocess


def main(ctx):
    log = ctx["log"]
    work = os.path.join(ctx["OUT"], "run", "selftest")
    shutil.rmtree(work, ignore_errors=True)
    os.makedirs(work)
    ctx["build_harness"]()
    failures = []

    def corrupt_and_check(name, suite, mode, n, trace, pick, mutate, extra=None):
        f = os.path.join(work, name + ".ndjson")
        ctx["dltv"](["record", suite, mode, "--seed", "7", "--n", str(n), "--out", f] + (extra or []))
        lines = open(f).read().splitlines()
        nl, mism = ctx["validate_one"](trace, f)
        if mism:
            failures.append("%s: the unmodified trace is rejected at %r" % (name, mism[:3]))
            return
        target = None
        for i, l in enumerate(lines):
            e = json.loads(l)
            if pick(e):
                mutate(e)
                lines[i] = json.dumps(e)
                target = i + 1
                break
        if target is None:
            failures.append("%s: no event to corrupt" % name)
            return
        g = os.path.join(work, name + ".bad.ndjson")
        open(g, "w").write("\n".join(lines) + "\n")
        nl, mism = ctx["validate_one"](trace, g)
        if [m[0] for m in mism] != [target]:
            failures.append("%s: corrupted line %d, TLC rejected %r" % (name, target, [m[0] for m in mism]))
        else:
            log("selftest %-28s corrupted line %d of %d -> rejected exactly there" % (name, target, nl))

    def bump(path):
        def f(e):
            x = e
            for k in path[:-1]:
                x = x[k]
            x[path[-1]] += 1
        return f

    corrupt_and_check("round: rest byte", "slice", "round", 20, "TraceSlice", lambda e: True, lambda e: e["res"][5]["rest"].pop())
    corrupt_and_check("parse: consumed", "slice", "mut", 20, "TraceSlice", lambda e: e["op"] == "parse" and e["res"]["v"] == "msg", bump(["res", "consumed"]))
    corrupt_and_check("enc: one byte", "slice", "mut", 20, "TraceSlice", lambda e: e["op"] == "enc", lambda e: e["bytes"].__setitem__(1, e["bytes"][1] ^ 1))
    corrupt_and_check("nopanic: panic", "slice", "hostile", 3, "TraceSlice", lambda e: e["op"] == "nopanic", lambda e: e["res"].__setitem__("v", "panic"))
    corrupt_and_check("frame: consumed", "slice", "session", 30, "TraceSlice", lambda e: e["op"] == "frame" and e["res"]["v"] in ("msg", "filtered", "skipped"), bump(["res", "consumed"]))
    corrupt_and_check("session: cursor", "slice", "session", 30, "TraceSlice", lambda e: e["op"] == "session" and len(e["steps"]) > 2, bump(["steps", 1, "pos"]))
    corrupt_and_check("prefixes: verdict", "slice", "prefix", 10, "TraceSlice", lambda e: len(e["cuts"]) > 10, lambda e: e["cuts"].__setitem__(9, {"v": "rej"}))
    corrupt_and_check("prefixes: hint", "slice", "prefix", 10, "TraceSlice", lambda e: len(e["cuts"]) > 10, lambda e: e["cuts"].__setitem__(len(e["cuts"]) - 1, {"v": "inc", "hint": [2]}))
    corrupt_and_check("forward: dropped", "slice", "junk", 20, "TraceSlice", lambda e: e["op"] == "forward" and e["res"]["v"] == "found", bump(["res", "dropped"]))
    corrupt_and_check("recover: lost message", "slice", "junk", 20, "TraceSlice", lambda e: e["op"] == "recover" and len(e["steps"]) > 2, lambda e: e["steps"].pop(0))
    corrupt_and_check("filter: payload length", "slice", "filter", 40, "TraceSlice", lambda e: e["res"]["v"] == "filtered" and e["res0"]["v"] == "msg", bump(["res", "n"]))
    corrupt_and_check("filter: kept as dropped", "slice", "filter", 40, "TraceSlice", lambda e: e["res"]["v"] == "msg", lambda e: e.__setitem__("res", {"v": "filtered", "n": e["res"]["m"]["h"]["plen"], "consumed": e["res"]["consumed"]}))
    corrupt_and_check("construct: value byte", "slice", "construct", 30, "TraceSlice", lambda e: e["res"]["v"] == "ok" and any(len(a["val"][1]) for a in e["res"]["args"]),
                      lambda e: [a for a in e["res"]["args"] if len(a["val"][1])][0]["val"][1].__setitem__(0, ([a for a in e["res"]["args"] if len(a["val"][1])][0]["val"][1][0] + 1) % 256))
    corrupt_and_check("stable: third serialisation", "slice", "stable", 10, "TraceSlice", lambda e: len(e["b3"]) > 6 and e["b3"] == e["b2"], lambda e: e["b3"].__setitem__(5, e["b3"][5] ^ 1))
    corrupt_and_check("zstr: value", "slice", "zstr", 40, "TraceSlice", lambda e: e["op"] == "zstr" and e["res"]["v"] == "ok" and e["res"]["val"], lambda e: e["res"]["val"].pop())
    corrupt_and_check("build: verbose flag", "build", "message", 20, "TraceBuild", lambda e: e["op"] == "build" and e["res"]["m"]["x"], lambda e: e["res"]["m"]["x"][0].__setitem__("verb", not e["res"]["m"]["x"][0]["verb"]))
    corrupt_and_check("arg: length", "build", "message", 20, "TraceBuild", lambda e: e["op"] == "arg" and e["res"]["valid"] and e["a"]["vari"] == (len(e["a"]["name"]) == 1), bump(["res", "len"]))
    corrupt_and_check("from_us: microseconds", "build", "ts", 5, "TraceBuild", lambda e: e["op"] == "from_us" and e["limbs"][-1] > 0 and len(e["limbs"]) == 3, bump(["res", "us", -1]))
    corrupt_and_check("real: value", "build", "real", 200, "TraceBuild", lambda e: e["res"]["v"] == "some" and e["prod"]["cls"] == "num" and not e["off"]["neg"] and len(e["res"]["limbs"]) < 6 and len(e["prod"]["limbs"]) < 6 and len(e["off"]["limbs"]) < 6, bump(["res", "limbs", -1]))
    corrupt_and_check("htyp: session-id flag", "codes", "bytes", 1, "TraceCodes", lambda e: e["op"] == "htyp" and e["b"] == 0x2d, lambda e: e["res"].__setitem__("wsid", False))
    corrupt_and_check("ti: accepted word refused", "codes", "ti", 0, "TraceCodes", lambda e: e["res"]["v"] == "ok", lambda e: e.__setitem__("res", {"v": "refused"}), ["--shard", "65", "--of", "4096"])
    corrupt_and_check("reader: delivered length", "reader", "blocking", 20, "TraceReader", lambda e: sum(1 for x in e["log"] if x["t"] == "out") >= 1, lambda e: [x for x in e["log"] if x["t"] == "out"][0].__setitem__("k", [x for x in e["log"] if x["t"] == "out"][0]["k"] + 1))
    corrupt_and_check("reader: dropped delivery", "reader", "blocking", 20, "TraceReader", lambda e: sum(1 for x in e["log"] if x["t"] == "out") >= 2, lambda e: e["log"].remove([x for x in e["log"] if x["t"] == "out"][1]))
    corrupt_and_check("pair: async ending", "reader", "pair", 20, "TraceReader", lambda e: True, lambda e: e["alog"][-1].__setitem__("ret", "err" if e["alog"][-1]["ret"] == "eos" else "eos"))
    corrupt_and_check("stats: one bucket", "stats", "scan", 20, "TraceStats", lambda e: e["op"] == "stats" and len(e["res"]["visits"]) >= 2, bump(["res", "result", 0, "ecu", 0, 1, 0]))
    corrupt_and_check("stats: one merge order", "stats", "scan", 20, "TraceStats", lambda e: e["op"] == "stats" and len(e["res"]["visits"]) >= 2 and len(e["res"]["merged"]) > 5, bump(["res", "merged", 5, "ecu", 0, 1, 1]))
    corrupt_and_check("stats: visit dropped", "stats", "scan", 20, "TraceStats", lambda e: e["op"] == "stats" and len(e["res"]["visits"]) >= 2, lambda e: e["res"]["visits"].pop())
    corrupt_and_check("fibex: sequence order", "fibex", "models", 30, "TraceFibex", lambda e: e["res"]["v"] == "model" and any(len(f[1]["pdus"]) >= 2 and f[1]["pdus"][0] != f[1]["pdus"][1] for f in e["res"]["frame_map"]),
                      lambda e: [f for f in e["res"]["frame_map"] if len(f[1]["pdus"]) >= 2 and f[1]["pdus"][0] != f[1]["pdus"][1]][0][1]["pdus"].reverse())
    def dec_pick(e):
        return any(m["res"]["v"] == "ok" and any(len(a["val"][1]) for a in m["res"]["args"]) for m in e["msgs"])

    def dec_mut(e):
        m = [m for m in e["msgs"] if m["res"]["v"] == "ok" and any(len(a["val"][1]) for a in m["res"]["args"])][0]
        a = [a for a in m["res"]["args"] if len(a["val"][1])][0]
        a["val"][1][0] = (a["val"][1][0] + 1) % 256
    corrupt_and_check("decode: argument value", "fibex", "decode", 30, "TraceDecode", dec_pick, dec_mut)
    corrupt_and_check("decode: lookup missed", "fibex", "decode", 30, "TraceDecode", lambda e: any(m["res"]["v"] == "ok" for m in e["msgs"]),
                      lambda e: [m for m in e["msgs"] if m["res"]["v"] == "ok"][0].__setitem__("res", {"v": "nometa"}))
    corrupt_and_check("fibex: hang", "fibex", "damage", 5, "TraceFibex", lambda e: True, lambda e: e["res"].__setitem__("v", "timeout"))
    corrupt_and_check("filter file: a count", "filtercfg", "json", 20, "TraceFilterCfg", lambda e: e["op"] == "load" and e["res"]["v"] == "some", bump(["res", "cfg", "ctxc"]))
    corrupt_and_check("filter file: refused", "filtercfg", "json", 20, "TraceFilterCfg", lambda e: e["op"] == "load" and e["res"]["v"] == "some", lambda e: e.__setitem__("res", {"v": "none"}))
    corrupt_and_check("filter: processed level", "filtercfg", "json", 20, "TraceFilterCfg", lambda e: e["op"] == "process" and e["res"]["p"]["min"] != [], lambda e: e["res"]["p"].__setitem__("min", []))

    # a replay case with a falsified expected result must be reported
    casef = os.path.join(work, "case.ndjson")
    open(casef, "w").write(json.dumps({"ev": {"op": "zstr", "buf": [65, 66, 0, 67], "size": 4}, "expect": {"v": "ok", "val": [65, 66, 0], "consumed": 4}}) + "\n")
    resf = os.path.join(work, "case.out")
    ctx["dltv"](["replay", "slice", "verdict", casef, "--out", resf])
    if len(ctx["read_stats"](resf)["mismatches"]) != 1:
        failures.append("replay: falsified expectation was not reported")
    else:
        log("selftest %-28s falsified expected result -> reported" % "replay: zstr")

    # the as-found FIBEX machine (EOF ignored inside PDU / FRAME) violates the termination property
    try:
        ctx["tlc_mc"]("asfound", "MCFibex", "MCFibexDamage_asfound.cfg", work, workers=8, timeout=600)
        failures.append("MCFibexDamage_asfound: TLC did not report the termination property violated")
    except Exception as e:  # ToolError carries TLC's report
        if "violated" in str(e):
            log("selftest %-28s EofRefuses = FALSE -> TLC reports the temporal property violated" % "fibex: as found")
        else:
            failures.append("MCFibexDamage_asfound: unexpected TLC outcome: %s" % str(e)[:300])
    if failures:
        for f in failures:
            log("SELFTEST-FAILURE " + f)
        return 2
    log("selftest ok")
    return 0
