//! Deterministic RNG (SplitMix64); every random choice of the harness derives from VERIF_SEED.
#[derive(Clone)]
pub struct Rng(pub u64);
impl Rng {
    pub fn new(seed: u64) -> Self { Rng(seed ^ 0x5DEECE66D1234567) }
    pub fn next(&mut self) -> u64 {
        self.0 = self.0.wrapping_add(0x9E3779B97F4A7C15);
        let mut z = self.0;
        z = (z ^ (z >> 30)).wrapping_mul(0xBF58476D1CE4E5B9);
        z = (z ^ (z >> 27)).wrapping_mul(0x94D049BB133111EB);
        z ^ (z >> 31)
    }
    pub fn below(&mut self, n: u64) -> u64 { if n == 0 { 0 } else { self.next() % n } }
    pub fn range(&mut self, lo: u64, hi: u64) -> u64 { lo + self.below(hi - lo + 1) }
    pub fn coin(&mut self) -> bool { self.next() & 1 == 1 }
    pub fn one_in(&mut self, n: u64) -> bool { self.below(n) == 0 }
    pub fn bytes(&mut self, n: usize) -> Vec<u8> { (0..n).map(|_| self.next() as u8).collect() }
    pub fn pick<'a, T>(&mut self, xs: &'a [T]) -> &'a T { &xs[self.below(xs.len() as u64) as usize] }
    /// 0..=4 ASCII letters/digits/space, no NUL
    pub fn ident(&mut self, max: usize) -> String {
        let n = self.below(max as u64 + 1) as usize;
        (0..n).map(|_| *self.pick(&['a', 'b', 'Z', 'E', 'C', 'U', '1', ' ', '_'])).collect()
    }
    /// text without NUL, mixing 1..4-byte UTF-8 sequences
    pub fn text(&mut self, max_chars: usize) -> String {
        let n = self.below(max_chars as u64 + 1) as usize;
        (0..n).map(|_| *self.pick(&['a', 'Z', 'é', '€', '0', ' ', '😀', '\u{7f}', '\u{80}', '\u{7ff}', '\u{800}', '\u{ffff}', '\u{10000}', '\u{10ffff}', '\u{1}', '\u{fffd}', '\n', '\t', '\u{feff}'])).collect()
    }
}
