//! Suite "codes" (C14): header-type, message-info and type-info codes through the code's own decode and re-encode.
use crate::proj;
use crate::slice;
use crate::Out;
use dlt_core::dlt::*;
use serde_json::{json, Value as J};
use std::convert::TryFrom;
use std::panic::{catch_unwind, AssertUnwindSafe};

/// a message whose header-type byte is `b`: optional fields, extended header and a 4-byte payload as `b` demands
fn message_with_htyp(b: u8, msin: u8) -> Vec<u8> { message_with_htyp_fill(b, msin, false) }
/// `zeros`: the optional fields (ECU id, session id, timestamp) are all-zero bytes instead of letters
fn message_with_htyp_fill(b: u8, msin: u8, zeros: bool) -> Vec<u8> {
    let std = 4 + 4 * ((b >> 2 & 1) + (b >> 3 & 1) + (b >> 4 & 1)) as usize;
    let hdrs = std + if b & 1 == 1 { 10 } else { 0 };
    // canonical in every respect but the byte under test: a verbose message announces 0 arguments and has no payload, a non-verbose one
    // carries its 4-byte message id (a control message: service id and three bytes)
    let verbose = b & 1 == 1 && msin & 1 == 1;
    let len = (hdrs + if verbose { 0 } else { 4 }) as u16;
    let mut m = vec![b, 9];
    m.extend(len.to_be_bytes());
    m.extend((0..std - 4).map(|i| if zeros { 0 } else { b'a' + i as u8 }));
    if b & 1 == 1 {
        m.extend([msin, 0]);
        m.extend(b"APP\0CTX\0");
    }
    if !verbose { m.extend([1, 2, 3, 4]); }
    m
}
pub fn htyp_event(b: u8) -> J { htyp_event_fill(b, false) }
/// the same message with another declared length (shorter than the announced headers, or longer than the bytes): whenever the
/// parser does return a message, its flags are those of the byte and it re-encodes to the byte
pub fn htyplen_event(b: u8, len: u16) -> J {
    let mut bytes = message_with_htyp_fill(b, 0x40, false);
    bytes[2] = (len >> 8) as u8; bytes[3] = len as u8;
    let res = match catch_unwind(AssertUnwindSafe(|| dlt_core::parse::dlt_message(&bytes, None, false))) {
        Err(_) => json!({"v": "panic"}),
        Ok(Ok((_, dlt_core::parse::ParsedMessage::Item(m)))) => {
            let h = &m.header;
            json!({"v": "msg", "ver": h.version, "be": h.endianness == Endianness::Big, "ueh": h.has_extended_header, "weid": h.ecu_id.is_some(), "wsid": h.session_id.is_some(),
                   "wtms": h.timestamp.is_some(), "reenc": h.header_type_byte()})
        }
        Ok(_) => json!({"v": "other"}),
    };
    json!({"op": "htyplen", "b": b, "len": len, "res": res})
}
pub fn htyp_event_fill(b: u8, zeros: bool) -> J {
    let bytes = message_with_htyp_fill(b, 0x40, zeros);
    let res = match catch_unwind(AssertUnwindSafe(|| dlt_core::parse::dlt_message(&bytes, None, false))) {
        Err(_) => json!({"v": "panic"}),
        Ok(Ok((_, dlt_core::parse::ParsedMessage::Item(m)))) => {
            let h = &m.header;
            json!({"v": "msg", "ver": h.version, "be": h.endianness == Endianness::Big, "ueh": h.has_extended_header, "weid": h.ecu_id.is_some(), "wsid": h.session_id.is_some(),
                   "wtms": h.timestamp.is_some(), "reenc": h.header_type_byte()})
        }
        Ok(_) => json!({"v": "other"}),
    };
    json!({"op": "htyp", "b": b, "zeros": zeros, "res": res})
}
/// the type-info word through the PARSER: a verbose message in one byte order whose single argument starts with these four raw
/// bytes, immediately followed by a message in the OTHER byte order with the same four raw bytes (so its word is the byte-reversed one)
pub fn tipair_event(raw: [u8; 4]) -> J {
    let mk = |be: bool| { let mut m = vec![0x21u8 | if be { 2 } else { 0 }, 0, 0, 14 + 4 + 40, 0x41, 1]; m.extend(b"APP\0CTX\0"); m.extend(raw); m.extend([0u8; 40]); m };
    let desc = |be: bool| -> J {
        let r = slice::parse_res(&mk(be), None, false, false);
        if r["v"] == "msg" { let a = &r["m"]["p"][1][0]; json!({"v": "ok", "desc": {"kind": a["kind"], "w": a["w"], "cod": a["cod"], "vari": a["vari"], "trai": a["trai"]}}) } else { json!({"v": "refused"}) }
    };
    let first_be = raw[0] & 1 == 0;
    let a = desc(first_be);
    let b = desc(!first_be);
    json!({"op": "tipair", "raw": proj::bytes(&raw), "first_be": first_be, "a": a, "b": b})
}
pub fn msin_event(b: u8) -> J {
    let res = match catch_unwind(AssertUnwindSafe(|| {
        let mt = MessageType::try_from(b);
        // two messages around the byte: the canonical one (a verbose message without arguments and payload) and one with four payload
        // bytes whatever the byte says (what a verbose flag on a control message looks like on the wire)
        let leg = |bytes: &[u8]| -> J {
            let parsed = slice::parse_res(bytes, None, false, false);
            if parsed["v"] == "msg" {
                let m = crate::unproj::message(&parsed["m"]);
                let re = crate::gen::ser(&m);
                json!({"pv": "msg", "verb": parsed["m"]["x"][0]["verb"], "pmt": parsed["m"]["x"][0]["mt"], "reenc": re.get(4).copied().unwrap_or(0)})
            } else {
                json!({"pv": "other", "verb": false, "pmt": [0, 0], "reenc": 0})
            }
        };
        let l1 = leg(&message_with_htyp(0x21, b));
        let mut with_payload = message_with_htyp(0x21, b & 0xFE);
        with_payload[4] = b;
        let l2 = leg(&with_payload);
        match mt {
            Ok(mt) => json!({"v": "ok", "mt": proj::msg_type(&mt), "reenc_mt": u8::from(&mt), "pv": l1["pv"], "verb": l1["verb"], "pmt": l1["pmt"], "reenc": l1["reenc"], "leg2": l2}),
            Err(_) => json!({"v": "refused", "mt": [0, 0], "reenc_mt": 0, "pv": l1["pv"], "verb": l1["verb"], "pmt": l1["pmt"], "reenc": l1["reenc"], "leg2": l2}),
        }
    })) {
        Ok(j) => j,
        Err(_) => json!({"v": "panic"}),
    };
    json!({"op": "msin", "b": b, "res": res})
}
pub fn ti_event(w: u32) -> J {
    let res = match catch_unwind(|| match TypeInfo::try_from(w) {
        Err(_) => json!({"v": "refused"}),
        Ok(t) => {
            let be = t.as_bytes::<byteorder::BigEndian>();
            let le = t.as_bytes::<byteorder::LittleEndian>();
            let w2 = u32::from_be_bytes([be[0], be[1], be[2], be[3]]);
            let re = match TypeInfo::try_from(w2) {
                Ok(t2) => json!({"v": "ok", "desc": proj::type_info(&t2)}),
                Err(_) => json!({"v": "refused"}),
            };
            json!({"v": "ok", "desc": proj::type_info(&t), "be": proj::bytes(&be), "le": proj::bytes(&le), "re": re})
        }
    }) {
        Ok(j) => j,
        Err(_) => json!({"v": "panic"}),
    };
    // the same word as the type info of the SECOND argument of a verbose message (after a bool), big-endian payload, followed by 40 bytes
    let mut m = vec![0x23u8, 0, 0, (4 + 10 + 5 + 4 + 40) as u8, 0x41, 2];
    m.extend(b"APP\0CTX\0");
    m.extend([0, 0, 0, 0x10, 1]);
    m.extend(w.to_be_bytes());
    m.extend([0u8; 40]);
    let second = slice::parse_res(&m, None, false, false)["v"].clone();
    json!({"op": "ti", "w": proj::bytes(&w.to_be_bytes()), "res": res, "second": second})
}

/// modes: "bytes" (all HTYP and MSIN), "ti" (type-info words: shard `k` of `of` over the low 18 bits, with seeded settings of the reserved bits)
pub fn record(mode: &str, seed: u64, n: usize, out: &mut Out, shard: u32, of: u32) {
    match mode {
        "bytes" => {
            for b in 0..=255u8 {
                out.calls += 4;
                out.emit(htyp_event(b), true);
                out.emit(htyp_event_fill(b, true), true);
                let std = 4 + 4 * ((b >> 2 & 1) + (b >> 3 & 1) + (b >> 4 & 1)) as u16;
                for len in [4u16, std, std + 4, std + 9, std + 10, std + 13] { out.calls += 1; out.emit(htyplen_event(b, len), true); }
                let me = msin_event(b);
                // vacuity guard of the conditional parser legs (the plan requires them)
                if me["res"]["pv"] == "msg" { *out.classes.entry("msin-leg1:msg".into()).or_insert(0) += 1; }
                if me["res"]["leg2"]["pv"] == "msg" { *out.classes.entry("msin-leg2:msg".into()).or_insert(0) += 1; }
                out.emit(me, true);
            }
            // type-info words through the parser, alternating byte orders on the same raw bytes (palindromic and not)
            let mut r = crate::rng::Rng::new(seed);
            for i in 0..4096u32 {
                let w: u32 = match i % 4 { 0 => i >> 2, 1 => (i >> 2) << 4 | 3, 2 => r.next() as u32 & 0x3FFFF, _ => (r.next() as u32 & 0xFF) * 0x01000001 | (r.next() as u32 & 0xFF) << 8 | (r.next() as u32 & 0xFF) << 16 };
                out.calls += 2;
                for raw in [w.to_be_bytes(), w.to_le_bytes()] {
                    let te = tipair_event(raw);
                    for leg in ["a", "b"] { if te[leg]["v"] == "ok" { *out.classes.entry("tipair-leg:ok".into()).or_insert(0) += 1; } }
                    out.emit(te, true);
                }
            }
        }
        "ti" => {
            // every word over the defined bits 0..17 (this shard's slice of them); n > 0: additionally n random settings of bits 18..31 each
            let mut r = crate::rng::Rng::new(seed);
            for low in 0..(1u32 << 18) {
                if low % of != shard { continue; }
                out.calls += 3;
                out.emit(ti_event(low), true);
                for _ in 0..n {
                    let hi = (r.next() as u32) & !0x3FFFF;
                    out.calls += 3;
                    out.emit(ti_event(low | hi), true);
                }
            }
        }
        // beyond the listed properties: the rest of the public surface (./check extras)
        "misc" => {
            for id in 0..=255u8 {
                out.calls += 2;
                out.emit(json!({"op": "svc", "id": id, "res": proj::opt(&dlt_core::service_id::service_id_lookup(id), |x| json!(x.0))}), true);
                let c = ControlType::from_value(id);
                let kind = match c { ControlType::Request => "request", ControlType::Response => "response", ControlType::Unknown(_) => "unknown" };
                out.emit(json!({"op": "ctl", "n": id, "res": {"kind": kind, "value": match c { ControlType::Unknown(n) => n, ControlType::Request => 1, ControlType::Response => 2 }, "back": c.value()}}), true);
            }
            let mut r = crate::rng::Rng::new(seed);
            for _ in 0..n.max(50) {
                let t = TypeInfo { kind: crate::gen::kind(&mut r), coding: crate::gen::coding(&mut r), has_variable_info: r.coin(), has_trace_info: r.coin() };
                out.calls += 1;
                out.emit(json!({"op": "width", "t": proj::type_info(&t), "res": t.type_width()}), true);
                let ma = if r.one_in(10) { 300 } else { 5 };
                let m = crate::gen::message(&mut r, &crate::gen::MsgOpts { storage: Some(false), big: 4, max_args: ma });
                out.calls += 1;
                out.emit(json!({"op": "argcount", "p": proj::payload(&m.payload), "res": m.payload.arg_count()}), true);
            }
            for (mtin, l) in [(1u8, LogLevel::Fatal), (2, LogLevel::Error), (3, LogLevel::Warn), (4, LogLevel::Info), (5, LogLevel::Debug), (6, LogLevel::Verbose), (0, LogLevel::Invalid(0)), (9, LogLevel::Invalid(9))] {
                let lv: log::Level = l.into();
                out.emit(json!({"op": "loglevel", "mtin": mtin, "res": lv.as_str()}), true);
            }
        }
        _ => panic!("unknown codes mode {}", mode),
    }
}
pub fn rerun(ev: &J) -> J {
    match ev["op"].as_str().unwrap_or("") {
        "htyplen" => htyplen_event(ev["b"].as_u64().unwrap() as u8, ev["len"].as_u64().unwrap() as u16),
        "htyp" => htyp_event_fill(ev["b"].as_u64().unwrap() as u8, ev["zeros"].as_bool().unwrap_or(false)),
        "tipair" => { let b = crate::unproj::bytes(&ev["raw"]); tipair_event([b[0], b[1], b[2], b[3]]) }
        "msin" => msin_event(ev["b"].as_u64().unwrap() as u8),
        "ti" => ti_event(crate::unproj::u32_of(&ev["w"])),
        _ => json!({"op": "unknown"}),
    }
}

/// the reserved bits 18..31: decode ignores them and encode writes them as zero - checked against the code's own result for
/// the low 18 bits (which TLC validates).  `per_low`: number of settings of the high bits per low word; 0 = all 2^14 (the full 2^32).
pub fn sweep(seed: u64, per_low: u32, threads: u32) -> J {
    let handles: Vec<_> = (0..threads)
        .map(|t| {
            std::thread::spawn(move || {
                let mut r = crate::rng::Rng::new(seed ^ (t as u64) << 32);
                let mut checked = 0u64;
                let mut bad: Vec<u32> = vec![];
                for low in 0..(1u32 << 18) {
                    if low % threads != t { continue; }
                    // a panic on the low word itself is reported by the `ti` events; here it only must not take the sweep down
                    let base = match std::panic::catch_unwind(|| TypeInfo::try_from(low).ok()) { Ok(b) => b, Err(_) => { if bad.len() < 5 { bad.push(low); } continue; } };
                    let base_bytes = match std::panic::catch_unwind(|| base.as_ref().map(|b| b.as_bytes::<byteorder::BigEndian>())) { Ok(b) => b, Err(_) => { if bad.len() < 5 { bad.push(low); } continue; } };
                    let count = if per_low == 0 { 1u32 << 14 } else { per_low };
                    for i in 0..count {
                        let hi = if per_low == 0 { i << 18 } else { (r.next() as u32) & !0x3FFFF };
                        let w = low | hi;
                        let got = std::panic::catch_unwind(|| TypeInfo::try_from(w).ok());
                        checked += 1;
                        let same = match (&got, &base) {
                            (Ok(None), None) => true,
                            (Ok(Some(a)), Some(b)) => a == b && std::panic::catch_unwind(|| a.as_bytes::<byteorder::BigEndian>()).ok() == base_bytes,
                            _ => false,
                        };
                        if !same && bad.len() < 5 { bad.push(w); }
                    }
                }
                (checked, bad)
            })
        })
        .collect();
    let mut checked = 0u64;
    let mut bad = vec![];
    for h in handles {
        let (c, b) = h.join().unwrap();
        checked += c;
        bad.extend(b);
    }
    json!({"checked": checked, "bad": bad})
}
