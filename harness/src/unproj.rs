//! Inverse projection: JSON produced by the TLA+ generators -> dlt-core values (direction A).
use dlt_core::dlt::*;
use dlt_core::filtering::DltFilterConfig;
use serde_json::Value as J;

pub fn bytes(j: &J) -> Vec<u8> {
    j.as_array().expect("byte array").iter().map(|x| x.as_u64().expect("byte") as u8).collect()
}
pub fn string(j: &J) -> String {
    String::from_utf8(bytes(j)).expect("generated strings are valid UTF-8")
}
pub fn opt<'a>(j: &'a J) -> Option<&'a J> {
    j.as_array().expect("option").first()
}
fn be_u128(b: &[u8]) -> u128 {
    b.iter().fold(0u128, |a, x| (a << 8) | *x as u128)
}
pub fn u32_of(j: &J) -> u32 {
    be_u128(&bytes(j)) as u32
}
pub fn msg_type(j: &J) -> MessageType {
    let a = j[0].as_u64().unwrap() as u8;
    let b = j[1].as_u64().unwrap() as u8;
    match a {
        0 => MessageType::Log(match b {
            1 => LogLevel::Fatal,
            2 => LogLevel::Error,
            3 => LogLevel::Warn,
            4 => LogLevel::Info,
            5 => LogLevel::Debug,
            6 => LogLevel::Verbose,
            n => LogLevel::Invalid(n),
        }),
        1 => MessageType::ApplicationTrace(match b {
            1 => ApplicationTraceType::Variable,
            2 => ApplicationTraceType::FunctionIn,
            3 => ApplicationTraceType::FunctionOut,
            4 => ApplicationTraceType::State,
            5 => ApplicationTraceType::Vfb,
            n => ApplicationTraceType::Invalid(n),
        }),
        2 => MessageType::NetworkTrace(match b {
            0 => NetworkTraceType::Invalid,
            1 => NetworkTraceType::Ipc,
            2 => NetworkTraceType::Can,
            3 => NetworkTraceType::Flexray,
            4 => NetworkTraceType::Most,
            5 => NetworkTraceType::Ethernet,
            6 => NetworkTraceType::Someip,
            n => NetworkTraceType::UserDefined(n),
        }),
        3 => MessageType::Control(match b {
            1 => ControlType::Request,
            2 => ControlType::Response,
            n => ControlType::Unknown(n),
        }),
        _ => MessageType::Unknown((a, b)),
    }
}
pub fn type_info(j: &J) -> TypeInfo {
    let w = j["w"].as_u64().unwrap();
    let tl = |w: u64| match w {
        8 => TypeLength::BitLength8,
        16 => TypeLength::BitLength16,
        32 => TypeLength::BitLength32,
        64 => TypeLength::BitLength64,
        128 => TypeLength::BitLength128,
        _ => panic!("width {}", w),
    };
    let fw = |w: u64| match w {
        32 => FloatWidth::Width32,
        64 => FloatWidth::Width64,
        _ => panic!("float width {}", w),
    };
    let kind = match j["kind"].as_str().unwrap() {
        "bool" => TypeInfoKind::Bool,
        "sint" => TypeInfoKind::Signed(tl(w)),
        "uint" => TypeInfoKind::Unsigned(tl(w)),
        "sfp" => TypeInfoKind::SignedFixedPoint(fw(w)),
        "ufp" => TypeInfoKind::UnsignedFixedPoint(fw(w)),
        "float" => TypeInfoKind::Float(fw(w)),
        "str" => TypeInfoKind::StringType,
        "raw" => TypeInfoKind::Raw,
        k => panic!("kind {}", k),
    };
    let coding = match j["cod"].as_u64().unwrap() {
        0 => StringCoding::ASCII,
        1 => StringCoding::UTF8,
        n => StringCoding::Reserved(n as u8),
    };
    TypeInfo { kind, coding, has_variable_info: j["vari"].as_bool().unwrap(), has_trace_info: j["trai"].as_bool().unwrap() }
}
pub fn value(j: &J) -> Value {
    let tag = j[0].as_str().unwrap();
    let b = bytes(&j[1]);
    let v = be_u128(&b);
    match (tag, b.len()) {
        ("bool", 1) => Value::Bool(b[0]),
        ("u", 1) => Value::U8(v as u8),
        ("u", 2) => Value::U16(v as u16),
        ("u", 4) => Value::U32(v as u32),
        ("u", 8) => Value::U64(v as u64),
        ("u", 16) => Value::U128(v),
        ("i", 1) => Value::I8(v as u8 as i8),
        ("i", 2) => Value::I16(v as u16 as i16),
        ("i", 4) => Value::I32(v as u32 as i32),
        ("i", 8) => Value::I64(v as u64 as i64),
        ("i", 16) => Value::I128(v as i128),
        ("f", 4) => Value::F32(f32::from_bits(v as u32)),
        ("f", 8) => Value::F64(f64::from_bits(v as u64)),
        ("str", _) => Value::StringVal(String::from_utf8(b).expect("utf8")),
        ("raw", _) => Value::Raw(b),
        _ => panic!("value {:?}", j),
    }
}
pub fn argument(j: &J) -> Argument {
    let fp = opt(&j["fp"]).map(|f| {
        let off = bytes(&f["off"]);
        FixedPoint {
            quantization: f32::from_bits(u32_of(&f["q"])),
            offset: if off.len() == 4 { FixedPointValue::I32(be_u128(&off) as u32 as i32) } else { FixedPointValue::I64(be_u128(&off) as u64 as i64) },
        }
    });
    Argument { type_info: type_info(j), name: opt(&j["name"]).map(string), unit: opt(&j["unit"]).map(string), fixed_point: fp, value: value(&j["val"]) }
}
pub fn payload(j: &J) -> PayloadContent {
    match j[0].as_str().unwrap() {
        "v" => PayloadContent::Verbose(j[1].as_array().unwrap().iter().map(argument).collect()),
        "nv" => PayloadContent::NonVerbose(u32_of(&j[1]), bytes(&j[2])),
        "ctl" => PayloadContent::ControlMsg(
            match j[1].as_u64().unwrap() as u8 {
                1 => ControlType::Request,
                2 => ControlType::Response,
                n => ControlType::Unknown(n),
            },
            bytes(&j[2]),
        ),
        "nw" => PayloadContent::NetworkTrace(j[1].as_array().unwrap().iter().map(bytes).collect()),
        k => panic!("payload {}", k),
    }
}
pub fn storage_header(s: &J) -> StorageHeader {
    StorageHeader { timestamp: DltTimeStamp { seconds: u32_of(&s["secs"]), microseconds: u32_of(&s["us"]) }, ecu_id: string(&s["ecu"]) }
}
pub fn endianness(be: &J) -> Endianness {
    if be.as_bool().unwrap() { Endianness::Big } else { Endianness::Little }
}
pub fn message(j: &J) -> Message {
    let h = &j["h"];
    Message {
        storage_header: opt(&j["sh"]).map(storage_header),
        header: StandardHeader {
            version: h["ver"].as_u64().unwrap() as u8,
            endianness: endianness(&h["be"]),
            has_extended_header: h["ueh"].as_bool().unwrap(),
            message_counter: h["mcnt"].as_u64().unwrap() as u8,
            ecu_id: opt(&h["ecu"]).map(string),
            session_id: opt(&h["sid"]).map(u32_of),
            timestamp: opt(&h["tms"]).map(u32_of),
            payload_length: h["plen"].as_u64().unwrap() as u16,
        },
        extended_header: opt(&j["x"]).map(|x| ExtendedHeader {
            verbose: x["verb"].as_bool().unwrap(),
            argument_count: x["noar"].as_u64().unwrap() as u8,
            message_type: msg_type(&x["mt"]),
            application_id: string(&x["ap"]),
            context_id: string(&x["ct"]),
        }),
        payload: payload(&j["p"]),
    }
}
pub fn filter_config(j: &J) -> DltFilterConfig {
    let ids = |k: &str| opt(&j[k]).map(|v| v.as_array().unwrap().iter().map(string).collect::<Vec<String>>());
    DltFilterConfig {
        min_log_level: opt(&j["min"]).map(|n| n.as_u64().unwrap() as u8),
        app_ids: ids("app"),
        ecu_ids: ids("ecu"),
        context_ids: ids("ctx"),
        app_id_count: match j["appc"].as_i64().unwrap() { x if x <= -(1 << 30) => i64::MIN, x if x >= 1 << 30 => i64::MAX, x => x },
        context_id_count: match j["ctxc"].as_i64().unwrap() { x if x <= -(1 << 30) => i64::MIN, x if x >= 1 << 30 => i64::MAX, x => x },
    }
}
