//! Direction A: replay of TLC-generated cases (model input + the model's expected result) into the code.
use crate::proj;
use crate::slice;
use crate::unproj;
use crate::Out;
use dlt_core::dlt::*;
use serde_json::{json, Value as J};
use std::panic::{catch_unwind, AssertUnwindSafe};

fn mismatch(out: &mut Out, what: &str, case: &J, expected: J, observed: J) {
    let class_of = |j: &J| j.get("v").and_then(|v| v.as_str()).unwrap_or("value").to_string();
    if out.mismatches.len() < 200 {
        out.mismatches.push(json!({"what": what, "expected_class": class_of(&expected), "observed_class": class_of(&observed), "case": case, "expected": expected, "observed": observed}));
    } else {
        out.mismatches.push(json!({"what": what, "expected_class": class_of(&expected), "observed_class": class_of(&observed), "case": {"omitted": true}}));
    }
}
const SUFFIXES: [&[u8]; 5] = [&[], &[0], b"DLT\x01", &[0x10, 0, 0, 0, 1], &[0, 2, 0, 0, 2, 0, 65, 66]];

/// suite "slice"
pub fn slice_cases(mode: &str, cases: &[J], out: &mut Out) {
    for case in cases {
        match mode {
            // {m, bytes}: as_bytes = reference serialisation; parse(bytes ++ sfx) = (m, Len(bytes)), rest = sfx
            "round" | "prefix" => {
                let m: Message = unproj::message(&case["m"]);
                let sh = m.storage_header.is_some();
                let want = unproj::bytes(&case["bytes"]);
                let got = catch_unwind(AssertUnwindSafe(|| m.as_bytes()));
                out.calls += 1;
                let b = match got {
                    Ok(b) => b,
                    Err(_) => { mismatch(out, "as_bytes", case, json!({"v": "bytes"}), json!({"v": "panic"})); continue; }
                };
                if b != want {
                    mismatch(out, "as_bytes", case, json!({"v": "bytes", "bytes": proj::bytes(&want)}), json!({"v": "other-bytes", "bytes": proj::bytes(&b)}));
                }
                if mode == "round" {
                    for s in SUFFIXES.iter() {
                        let mut x = want.clone();
                        x.extend_from_slice(s);
                        out.calls += 1;
                        let r = slice::parse_res(&x, None, sh, true);
                        let ok = r["v"] == "msg" && r["m"] == case["m"] && r["consumed"] == json!(want.len()) && r["rest"] == proj::bytes(s);
                        if !ok {
                            mismatch(out, "parse(bytes++suffix)", case, json!({"v": "msg", "consumed": want.len(), "m": case["m"], "rest": proj::bytes(s)}), r);
                        }
                    }
                } else {
                    for k in 0..want.len() {
                        out.calls += 1;
                        let r = slice::parse_res(&want[..k], None, sh, false);
                        let hint_ok = match r["hint"].as_array().and_then(|a| a.first()).and_then(|h| h.as_u64()) { Some(h) => h >= 1 && h as usize <= want.len() - k, None => true };
                        if r["v"] != "inc" || !hint_ok {
                            mismatch(out, "parse(prefix)", &json!({"full": case["bytes"], "k": k, "sh": sh}), json!({"v": "inc", "max_hint": want.len() - k}), r);
                        }
                        if sh {
                            out.calls += 1;
                            let c = slice::consume_res(&want[..k]);
                            let hint_ok = match c["hint"].as_array().and_then(|a| a.first()).and_then(|h| h.as_u64()) { Some(h) => h >= 1 && h as usize <= want.len() - k, None => true };
                            let want_v = if k == 0 { "none" } else { "inc" };
                            if c["v"] != want_v || !hint_ok {
                                mismatch(out, "consume(prefix)", &json!({"full": case["bytes"], "k": k}), json!({"v": want_v, "max_hint": want.len() - k}), c);
                            }
                        }
                    }
                }
                out.emit(json!({"case": "done"}), true);
            }
            // {ev: event-shaped input, expect: verdict}: one call, compared with the model's verdict
            "verdict" => {
                let ev = &case["ev"];
                let got = slice::rerun(ev);
                out.calls += 1;
                let r = &got["res"];
                let e = &case["expect"];
                let ok = match e["v"].as_str().unwrap() {
                    "msg" => r["v"] == "msg" && r["m"] == e["m"] && r["consumed"] == e["consumed"],
                    "filtered" => r["v"] == "filtered" && r["n"] == e["n"] && r["consumed"] == e["consumed"],
                    "skipped" => r["v"] == "skipped" && r["consumed"] == e["consumed"],
                    "found" => r["v"] == "found" && r["dropped"] == e["dropped"],
                    "ok" => r["v"] == "ok" && (e.get("val").is_none() || (r["val"] == e["val"] && r["consumed"] == e["consumed"])) && (e.get("args").is_none() || r["args"] == e["args"]),
                    "inc" => r["v"] == "inc" && match (e.get("miss").and_then(|m| m.as_u64()), r["hint"].as_array().and_then(|a| a.first()).and_then(|h| h.as_u64())) { (Some(m), Some(h)) => h >= 1 && h <= m, _ => true },
                    "any" => r["v"] == "ok" || r["v"] == "err",
                    v => r["v"] == v,
                };
                if !ok {
                    mismatch(out, ev["op"].as_str().unwrap_or("?"), case, e.clone(), r.clone());
                }
                out.emit(json!({"case": "done"}), true);
            }
            _ => panic!("unknown replay mode {}", mode),
        }
    }
}
