//! Direction A: replay of TLC-generated cases into the code.  Each mode compares exactly the relation
//! of one property (a check must not fire on code that keeps its property):
//!   round   C01  {m, bytes}: parse(as_bytes(m) ++ suffix) = (m, rest = suffix)
//!   enc     C02  {m, bytes}: as_bytes(m) = reference bytes
//!   verdict C02/C06/C13/C19  {ev, expect}: the call's result = the reference result
//!   nopanic C03  {ev}: no panic; a returned message re-serialises and measures, its arguments are valid
//!   frame / frames C04  {ev, frame(s)}: a successful call consumes exactly the declared frame
//!   prefix  C05  {m}: every cut of as_bytes(m) is incomplete, hint bound
//!   junk    C06  {junk, msg, sfx}: junk ++ msg parses like msg
//!   filter  C09  {ev, drop}: filtered parse vs unfiltered parse, decision = the model's
//!   stable  C16  {ev}: parse -> as_bytes -> parse -> as_bytes
//!   ids     C19  {ev, expect}: the ids of the message
use crate::proj;
use crate::slice;
use crate::unproj;
use crate::Out;
use dlt_core::dlt::*;
use serde_json::{json, Value as J};
use std::panic::{catch_unwind, AssertUnwindSafe};

fn mismatch(out: &mut Out, what: &str, case: &J, expected: J, observed: J) {
    let class_of = |j: &J| j.get("v").and_then(|v| v.as_str()).unwrap_or("value").to_string();
    let keep = out.mismatches.len() < 200;
    out.mismatches.push(json!({"what": what, "expected_class": class_of(&expected), "observed_class": class_of(&observed),
        "case": if keep { case.clone() } else { json!({"omitted": true}) }, "expected": if keep { expected } else { J::Null }, "observed": if keep { observed } else { J::Null }}));
}
const SUFFIXES: [&[u8]; 5] = [&[], &[0], b"DLT\x01", &[0x10, 0, 0, 0, 1], &[0, 2, 0, 0, 2, 0, 65, 66]];
fn hint_ok(r: &J, missing: usize) -> bool {
    match r["hint"].as_array().and_then(|a| a.first()).and_then(|h| h.as_u64()) {
        Some(h) => h >= 1 && h as usize <= missing,
        None => true,
    }
}
/// `frames`: the set of frames the buffer declares (one per occurrence of the storage-header pattern; a single one without resync)
fn frame_ok(r: &J, frames: &J) -> bool {
    let v = r["v"].as_str().unwrap_or("");
    if v == "misaligned" { return false; }     // a successful call whose remainder is not the input's suffix behind the reported count
    if !["msg", "filtered", "skipped", "invalid"].contains(&v) {
        return true;
    }
    let consumed = r["consumed"].as_i64().unwrap_or(-2);
    let n = if v == "filtered" { r["n"].as_i64() } else if v == "msg" { r.get("n").and_then(|x| x.as_i64()).or(r["m"]["h"]["plen"].as_i64()) } else { None };
    frames.as_array().map(|fs| fs.iter().any(|frame| {
        let end = frame["end"].as_i64().unwrap_or(-1);
        end > 0 && consumed == end && (n.is_none() || n == frame["n"].as_i64())
    })).unwrap_or(false)
}

/// C13: "each carrying its type and the value decoded from the next field": the type description and the value; whether a string keeps
/// the NUL terminator its field may end with is not stated, name / unit / fixed-point data are not mentioned
fn sig_args_same(r: &J, e: &J) -> bool {
    let (ra, ea) = match (r.as_array(), e.as_array()) { (Some(a), Some(b)) => (a, b), _ => return false };
    ra.len() == ea.len() && ra.iter().zip(ea.iter()).all(|(a, b)| {
        let ty = ["kind", "w", "cod", "vari", "trai"].iter().all(|k| a[*k] == b[*k]);
        let same_val = a["val"] == b["val"];
        let cut = b["val"][0] == "str" && a["val"][0] == "str" && match (a["val"][1].as_array(), b["val"][1].as_array()) {
            (Some(x), Some(y)) => y.last().and_then(|z| z.as_u64()) == Some(0) && x[..] == y[..y.len() - 1],
            _ => false,
        };
        let _ = cut;     // (a trimmed terminator was proposed as latitude and withdrawn: seeded change C13_G)
        ty && same_val
    })
}
/// suite "slice"
pub fn slice_cases(default_mode: &str, cases: &[J], out: &mut Out) {
    for case in cases {
        let mode = case.get("mode").and_then(|m| m.as_str()).unwrap_or(default_mode);
        match mode {
            "round" | "prefix" | "enc" => {
                let mut m: Message = unproj::message(&case["m"]);
                let sh = m.storage_header.is_some();
                out.calls += 1;
                // the generated value records the payload length of the reference layout; C01 / C05 speak about a message whose payload
                // length is the one its own serialisation has (the layout itself is C02: mode "enc" keeps the value as generated)
                let mut casem = case["m"].clone();
                if mode != "enc" {
                    let own = crate::gen::own_payload_len(&m);
                    if own != m.header.payload_length as usize && own <= 65535 {
                        m.header.payload_length = own as u16;
                        casem = proj::message(&m);
                        *out.classes.entry("replay:payload-length-of-own-serialisation".into()).or_insert(0) += 1;
                    }
                }
                let b = match catch_unwind(AssertUnwindSafe(|| m.as_bytes())) {
                    Ok(b) => b,
                    Err(_) => { if mode == "enc" { mismatch(out, "as_bytes", case, json!({"v": "bytes"}), json!({"v": "panic"})); } continue; }
                };
                if mode == "enc" {
                    let want = unproj::bytes(&case["bytes"]);
                    if b != want {
                        mismatch(out, "as_bytes", case, json!({"v": "bytes", "bytes": proj::bytes(&want)}), json!({"v": "other-bytes", "bytes": proj::bytes(&b)}));
                    }
                } else if mode == "round" {
                    // a few cases also get trailing data that brings the buffer to a multiple of 64 KiB (+-1)
                    let o = if sh { 16 } else { 0 };
                    let big: Vec<Vec<u8>> = if out.events % 500 == 3 { [65535usize, 65536, 65536 + o, 65536 + o + 1, 2 * 65536 + o].iter().filter(|t| **t > b.len()).map(|t| vec![0xA5u8; *t - b.len()]).collect() } else { vec![] };
                    for s in SUFFIXES.iter().map(|s| s.to_vec()).chain(big.into_iter()) {
                        let s = &s[..];
                        let mut x = b.clone();
                        x.extend_from_slice(s);
                        out.calls += 1;
                        let r = slice::parse_res(&x, None, sh, true);
                        let ok = r["v"] == "msg" && r["m"] == casem && r["consumed"] == json!(b.len()) && r["rest"] == proj::bytes(s);
                        if !ok {
                            mismatch(out, "parse(as_bytes(m)++suffix)", case, json!({"v": "msg", "consumed": b.len(), "m": casem, "rest": proj::bytes(s)}), r);
                        }
                    }
                } else {
                    for k in 0..b.len() {
                        out.calls += 1;
                        let r = slice::parse_res(&b[..k], None, sh, false);
                        if r["v"] != "inc" || !hint_ok(&r, b.len() - k) {
                            mismatch(out, "parse(prefix)", &json!({"full": proj::bytes(&b), "k": k, "sh": sh}), json!({"v": "inc", "max_hint": b.len() - k}), r);
                        }
                        if sh {
                            out.calls += 1;
                            let c = slice::consume_res(&b[..k]);
                            let want_v = if k == 0 { "none" } else { "inc" };
                            if c["v"] != want_v || !hint_ok(&c, b.len() - k) {
                                mismatch(out, "consume(prefix)", &json!({"full": proj::bytes(&b), "k": k}), json!({"v": want_v, "max_hint": b.len() - k}), c);
                            }
                        }
                    }
                }
                out.emit(json!({"case": "done"}), true);
            }
            // {ev: event-shaped input, expect: verdict}: one call, compared with the model's verdict
            "verdict" | "search" => {
                let ev = &case["ev"];
                let got = slice::rerun(ev);
                out.calls += 1;
                let r = &got["res"];
                let e = &case["expect"];
                let ok = match e["v"].as_str().unwrap() {
                    "msg" => r["v"] == "msg" && r["m"] == e["m"] && r["consumed"] == e["consumed"],
                    "filtered" => r["v"] == "filtered" && r["n"] == e["n"] && r["consumed"] == e["consumed"],
                    "skipped" => r["v"] == "skipped" && r["consumed"] == e["consumed"],
                    "found" => r["v"] == "found" && r["dropped"] == e["dropped"],
                    "ok" => r["v"] == "ok" && (e.get("val").is_none() || (r["val"] == e["val"] && r["consumed"] == e["consumed"])) && (e.get("args").is_none() || sig_args_same(&r["args"], &e["args"])),
                    "inc" => r["v"] == "inc" && match e.get("miss").and_then(|m| m.as_u64()) { Some(m) => hint_ok(r, m as usize), None => true },
                    "any" => r["v"] == "ok" || r["v"] == "err",
                    v => r["v"] == v,
                };
                if !ok {
                    mismatch(out, ev["op"].as_str().unwrap_or("?"), case, e.clone(), r.clone());
                }
                out.emit(json!({"case": "done"}), true);
            }
            "nopanic" => {
                let ev = &case["ev"];
                let got = slice::rerun(ev);
                out.calls += 1;
                if got["res"]["v"] == "panic" {
                    mismatch(out, "panic", case, json!({"v": "no-panic"}), got["res"].clone());
                }
                if ev["op"] == "parse" && got["res"]["v"] == "msg" {
                    let m = unproj::message(&got["res"]["m"]);
                    let e = slice::reser_event(&m, true);
                    out.calls += 4;
                    let all_valid = e["res"]["avalid"].as_array().map(|a| a.iter().all(|x| x == &json!(true))).unwrap_or(false);
                    if e["res"]["v"] != "ok" || !all_valid {
                        mismatch(out, "reserialise/measure", case, json!({"v": "ok-and-valid"}), e["res"].clone());
                    }
                }
                out.emit(json!({"case": "done"}), true);
            }
            "frame" => {
                let got = slice::rerun(&case["ev"]);
                out.calls += 1;
                if !frame_ok(&got["res"], &case["frame"]) {
                    mismatch(out, "frame", case, json!({"v": "frame", "frame": case["frame"]}), got["res"].clone());
                }
                out.emit(json!({"case": "done"}), true);
            }
            // {ev: session input, frames: [frame at every position]}: every successful step consumes the declared frame, the loop ends
            "frames" => {
                let got = slice::rerun(&case["ev"]);
                let steps = got["steps"].as_array().unwrap();
                let frames = case["frames"].as_array().unwrap();
                out.calls += steps.len() as u64;
                let mut ok = true;
                for (i, s) in steps.iter().enumerate() {
                    let pos = s["pos"].as_u64().unwrap() as usize;
                    if pos >= frames.len() || !frame_ok(&s["res"], &frames[pos]) { ok = false; break; }
                    let okc = ["msg", "filtered", "skipped"].contains(&s["res"]["v"].as_str().unwrap());
                    if i + 1 < steps.len() && !okc { ok = false; break; }
                }
                let last_ok = steps.last().map(|s| ["msg", "filtered", "skipped"].contains(&s["res"]["v"].as_str().unwrap())).unwrap_or(false);
                if last_ok && steps.len() < 64 { ok = false; }
                if !ok {
                    mismatch(out, "session-frames", case, json!({"v": "frames"}), json!({"v": "other-steps", "steps": got["steps"]}));
                }
                out.emit(json!({"case": "done"}), steps.len() > 1);
            }
            "junk" => {
                let (junk, msg, sfx) = (unproj::bytes(&case["junk"]), unproj::bytes(&case["msg"]), unproj::bytes(&case["sfx"]));
                let mut with = junk.clone();
                with.extend(&msg);
                with.extend(&sfx);
                let mut without = msg.clone();
                without.extend(&sfx);
                out.calls += 2;
                let a = slice::parse_res(&with, None, true, false);
                let b = slice::parse_res(&without, None, true, false);
                if b["v"] == "msg" {
                    let ok = a["v"] == "msg" && a["m"] == b["m"] && a["consumed"].as_u64() == b["consumed"].as_u64().map(|c| c + junk.len() as u64);
                    if !ok {
                        mismatch(out, "junk++msg", case, json!({"v": "msg", "like": b}), a);
                    }
                }
                out.emit(json!({"case": "done"}), !junk.is_empty());
            }
            "filter" => {
                let ev = &case["ev"];
                let buf = unproj::bytes(&ev["buf"]);
                let sh = ev["sh"].as_bool().unwrap();
                let cfg = unproj::filter_config(&ev["flt"][0]);
                for borrowed in [true, false] {
                    let e = slice::filter_event(&buf, &cfg, sh, borrowed);
                    out.calls += 2;
                    let (r, r0) = (&e["res"], &e["res0"]);
                    let ok = if r0["v"] == "msg" {
                        if case["drop"] == json!(true) { r["v"] == "filtered" && r["n"] == r0["m"]["h"]["plen"] && r["consumed"] == r0["consumed"] } else { r == r0 }
                    } else { true };
                    if !ok {
                        mismatch(out, "filter", case, json!({"v": if case["drop"] == json!(true) { "filtered" } else { "kept" }, "unfiltered": r0}), r.clone());
                    }
                }
                out.emit(json!({"case": "done"}), true);
            }
            "stable" => {
                let ev = &case["ev"];
                let buf = unproj::bytes(&ev["buf"]);
                let sh = ev["sh"].as_bool().unwrap();
                out.calls += 1;
                let r = slice::parse_res(&buf, None, sh, false);
                if r["v"] == "msg" {
                    let m = unproj::message(&r["m"]);
                    let e = slice::stable_event(&m, sh);
                    out.calls += 3;
                    let b2 = unproj::bytes(&e["b2"]);
                    let o = if sh { 16 } else { 0 };
                    let declared = if b2.len() >= o + 4 { o + ((b2[o + 2] as usize) << 8 | b2[o + 3] as usize) } else { 0 };
                    if e["res2"]["v"] == "panic" || (b2.len() == declared && !(e["res2"]["v"] == "msg" && e["res2"]["m"] == r["m"] && e["res2"]["consumed"] == json!(b2.len()) && e["b3"] == e["b2"])) {
                        mismatch(out, "stable", case, json!({"v": "stable"}), json!({"v": "unstable", "first": r, "chain": e}));
                    }
                }
                out.emit(json!({"case": "done"}), r["v"] == "msg");
            }
            "ids" => {
                let got = slice::rerun(&case["ev"]);
                out.calls += 1;
                let (r, e) = (&got["res"], &case["expect"]);
                // control: the same message with plain ids; if the code returns no message for it either, the refusal is not about the ids
                let mut cb = unproj::bytes(&case["ev"]["buf"]);
                let ctrl_ok = if cb.len() == 22 {
                    cb[4..8].copy_from_slice(b"ECU\0");
                    cb[10..18].copy_from_slice(b"APP\0CTX\0");
                    out.calls += 1;
                    slice::parse_res(&cb, None, false, false)["v"] == "msg"
                } else { true };
                if e["v"] == "msg" && ctrl_ok {
                    let ok = r["v"] == "msg" && r["m"]["h"]["ecu"] == e["m"]["h"]["ecu"] && r["m"]["x"] .get(0).map(|x| (&x["ap"], &x["ct"])) == e["m"]["x"].get(0).map(|x| (&x["ap"], &x["ct"]));
                    if !ok {
                        mismatch(out, "ids", case, e.clone(), r.clone());
                    }
                }
                out.emit(json!({"case": "done"}), true);
            }
            // {ev: session input, expect: [{pos, v, consumed, n, alt}]}: the whole repeat-until-error loop against the reference (C02-strength)
            "session" => {
                let got = slice::rerun(&case["ev"]);
                let steps = got["steps"].as_array().unwrap();
                let exp = case["expect"].as_array().unwrap();
                out.calls += steps.len() as u64;
                let mut ok = true;
                let mut ended_by_latitude = false;
                // C02 states the verdict of the message PARSER; for the skipper no statement fixes what it refuses (C04 / C05 say where a
                // skipped message ends and what prefixes give).  A session of the skipper is therefore compared only as far as the
                // reference skips: there the code must skip the same bytes; where the reference stops, the code may stop or go on.
                let skipper = case["ev"]["api"] == "consume";
                for (i, s) in steps.iter().enumerate() {
                    if i >= exp.len() { if skipper { ended_by_latitude = true; } else { ok = false; } break; }
                    let e = &exp[i];
                    let r = &s["res"];
                    if skipper && e["v"] != "skipped" {
                        if r["v"] == "panic" { ok = false; }
                        ended_by_latitude = true;
                        break;
                    }
                    let exact = s["pos"] == e["pos"] && r["v"] == e["v"] && r["consumed"] == e["consumed"] && r["n"] == e["n"];
                    let alt = s["pos"] == e["pos"] && r["v"] == e["alt"] && r["v"] == "rej" && i + 1 == steps.len();
                    if alt && !exact { ended_by_latitude = true; }
                    if !(exact || alt) { ok = false; break; }
                }
                if ok && !ended_by_latitude && steps.len() != exp.len() { ok = false; }
                if !ok {
                    mismatch(out, "session", case, json!({"v": "steps", "steps": case["expect"]}), json!({"v": "other-steps", "steps": got["steps"]}));
                }
                out.emit(json!({"case": "done"}), steps.len() > 1);
            }
            _ => panic!("unknown replay mode {}", mode),
        }
    }
}
