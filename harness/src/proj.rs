//! Structural projection of dlt-core values into the JSON the TLA+ specification reads
//! (DESIGN §3).  Purely structural: strings as byte arrays, integers >= 16 bit as big-endian
//! byte arrays, floats by bit pattern, options as 0/1-element arrays, message types as their
//! canonical (MSTP, MTIN) pair taken from the layout tables (not from the crate's `u8::from`).
use dlt_core::dlt::*;
use dlt_core::filtering::DltFilterConfig;
use dlt_core::parse::{DltParseError, ParsedMessage};
use serde_json::{json, Value as J};

pub fn bytes(b: &[u8]) -> J {
    J::Array(b.iter().map(|x| J::from(*x)).collect())
}
pub fn opt<T, F: Fn(&T) -> J>(o: &Option<T>, f: F) -> J {
    match o {
        Some(x) => json!([f(x)]),
        None => json!([]),
    }
}
pub fn str_bytes(s: &str) -> J {
    bytes(s.as_bytes())
}

pub fn msg_type_pair(mt: &MessageType) -> (u8, u8) {
    match mt {
        MessageType::Log(l) => (
            0,
            match l {
                LogLevel::Fatal => 1,
                LogLevel::Error => 2,
                LogLevel::Warn => 3,
                LogLevel::Info => 4,
                LogLevel::Debug => 5,
                LogLevel::Verbose => 6,
                LogLevel::Invalid(n) => *n,
            },
        ),
        MessageType::ApplicationTrace(t) => (
            1,
            match t {
                ApplicationTraceType::Variable => 1,
                ApplicationTraceType::FunctionIn => 2,
                ApplicationTraceType::FunctionOut => 3,
                ApplicationTraceType::State => 4,
                ApplicationTraceType::Vfb => 5,
                ApplicationTraceType::Invalid(n) => *n,
            },
        ),
        MessageType::NetworkTrace(t) => (
            2,
            match t {
                NetworkTraceType::Invalid => 0,
                NetworkTraceType::Ipc => 1,
                NetworkTraceType::Can => 2,
                NetworkTraceType::Flexray => 3,
                NetworkTraceType::Most => 4,
                NetworkTraceType::Ethernet => 5,
                NetworkTraceType::Someip => 6,
                NetworkTraceType::UserDefined(n) => *n,
            },
        ),
        MessageType::Control(t) => (
            3,
            match t {
                ControlType::Request => 1,
                ControlType::Response => 2,
                ControlType::Unknown(n) => *n,
            },
        ),
        MessageType::Unknown((a, b)) => (*a, *b),
    }
}
pub fn msg_type(mt: &MessageType) -> J {
    let (a, b) = msg_type_pair(mt);
    json!([a, b])
}
pub fn type_info_parts(t: &TypeInfo) -> (&'static str, u32, u8, bool, bool) {
    let (k, w) = match t.kind {
        TypeInfoKind::Bool => ("bool", 0),
        TypeInfoKind::Signed(l) => ("sint", l as u32),
        TypeInfoKind::SignedFixedPoint(l) => ("sfp", l as u32),
        TypeInfoKind::Unsigned(l) => ("uint", l as u32),
        TypeInfoKind::UnsignedFixedPoint(l) => ("ufp", l as u32),
        TypeInfoKind::Float(l) => ("float", l as u32),
        TypeInfoKind::StringType => ("str", 0),
        TypeInfoKind::Raw => ("raw", 0),
    };
    let c = match t.coding {
        StringCoding::ASCII => 0,
        StringCoding::UTF8 => 1,
        StringCoding::Reserved(n) => n,
    };
    (k, w, c, t.has_variable_info, t.has_trace_info)
}
pub fn type_info(t: &TypeInfo) -> J {
    let (kind, w, cod, vari, trai) = type_info_parts(t);
    json!({"kind": kind, "w": w, "cod": cod, "vari": vari, "trai": trai})
}
pub fn value(v: &Value) -> J {
    match v {
        Value::Bool(b) => json!(["bool", [b]]),
        Value::U8(x) => json!(["u", bytes(&x.to_be_bytes())]),
        Value::U16(x) => json!(["u", bytes(&x.to_be_bytes())]),
        Value::U32(x) => json!(["u", bytes(&x.to_be_bytes())]),
        Value::U64(x) => json!(["u", bytes(&x.to_be_bytes())]),
        Value::U128(x) => json!(["u", bytes(&x.to_be_bytes())]),
        Value::I8(x) => json!(["i", bytes(&x.to_be_bytes())]),
        Value::I16(x) => json!(["i", bytes(&x.to_be_bytes())]),
        Value::I32(x) => json!(["i", bytes(&x.to_be_bytes())]),
        Value::I64(x) => json!(["i", bytes(&x.to_be_bytes())]),
        Value::I128(x) => json!(["i", bytes(&x.to_be_bytes())]),
        Value::F32(x) => json!(["f", bytes(&x.to_bits().to_be_bytes())]),
        Value::F64(x) => json!(["f", bytes(&x.to_bits().to_be_bytes())]),
        Value::StringVal(s) => json!(["str", str_bytes(s)]),
        Value::Raw(r) => json!(["raw", bytes(r)]),
    }
}
pub fn fixed_point(f: &FixedPoint) -> J {
    json!({"q": bytes(&f.quantization.to_bits().to_be_bytes()),
           "off": match f.offset {
               FixedPointValue::I32(v) => bytes(&v.to_be_bytes()),
               FixedPointValue::I64(v) => bytes(&v.to_be_bytes()) }})
}
pub fn argument(a: &Argument) -> J {
    let (kind, w, cod, vari, trai) = type_info_parts(&a.type_info);
    json!({"kind": kind, "w": w, "cod": cod, "vari": vari, "trai": trai,
        "name": opt(&a.name, |s| str_bytes(s)), "unit": opt(&a.unit, |s| str_bytes(s)),
        "fp": opt(&a.fixed_point, fixed_point),
        "val": value(&a.value)})
}
pub fn storage_header(s: &StorageHeader) -> J {
    json!({"secs": bytes(&s.timestamp.seconds.to_be_bytes()), "us": bytes(&s.timestamp.microseconds.to_be_bytes()), "ecu": str_bytes(&s.ecu_id)})
}
pub fn std_header(h: &StandardHeader) -> J {
    json!({"ver": h.version, "be": h.endianness == Endianness::Big, "ueh": h.has_extended_header, "mcnt": h.message_counter,
           "ecu": opt(&h.ecu_id, |s| str_bytes(s)), "sid": opt(&h.session_id, |v| bytes(&v.to_be_bytes())),
           "tms": opt(&h.timestamp, |v| bytes(&v.to_be_bytes())), "plen": h.payload_length})
}
pub fn ext_header(x: &ExtendedHeader) -> J {
    json!({"verb": x.verbose, "noar": x.argument_count, "mt": msg_type(&x.message_type),
           "ap": str_bytes(&x.application_id), "ct": str_bytes(&x.context_id)})
}
pub fn payload(p: &PayloadContent) -> J {
    match p {
        PayloadContent::Verbose(args) => json!(["v", args.iter().map(argument).collect::<Vec<_>>()]),
        PayloadContent::NonVerbose(id, d) => json!(["nv", bytes(&id.to_be_bytes()), bytes(d)]),
        PayloadContent::ControlMsg(c, d) => json!(["ctl", match c { ControlType::Request => 1, ControlType::Response => 2, ControlType::Unknown(n) => *n }, bytes(d)]),
        PayloadContent::NetworkTrace(s) => json!(["nw", s.iter().map(|x| bytes(x)).collect::<Vec<_>>()]),
    }
}
pub fn message(m: &Message) -> J {
    json!({
        "sh": opt(&m.storage_header, storage_header),
        "h": std_header(&m.header),
        "x": opt(&m.extended_header, ext_header),
        "p": payload(&m.payload),
    })
}
pub type ParseRes<'a> = std::thread::Result<Result<(&'a [u8], ParsedMessage), DltParseError>>;
/// `with_rest`: also log the unconsumed remainder itself (C01)
pub fn parse_result(input_len: usize, r: &ParseRes, with_rest: bool) -> J {
    match r {
        Err(_) => json!({"v": "panic"}),
        Ok(Ok((rest, ParsedMessage::Item(m)))) => {
            let mut o = json!({"v": "msg", "consumed": input_len.saturating_sub(rest.len()), "m": message(m)});
            if with_rest {
                o["rest"] = bytes(rest);
            }
            o
        }
        Ok(Ok((rest, ParsedMessage::FilteredOut(n)))) => json!({"v": "filtered", "consumed": input_len.saturating_sub(rest.len()), "n": n}),
        Ok(Ok((rest, ParsedMessage::Invalid))) => json!({"v": "invalid", "consumed": input_len.saturating_sub(rest.len())}),
        Ok(Err(DltParseError::IncompleteParse { needed })) => json!({"v": "inc", "hint": match needed { Some(n) => json!([n.get()]), None => json!([]) }}),
        Ok(Err(_)) => json!({"v": "rej"}),
    }
}
pub fn filter_config(c: &DltFilterConfig) -> J {
    let ids = |o: &Option<Vec<String>>| opt(o, |v| J::Array(v.iter().map(|s| str_bytes(s)).collect()));
    json!({"min": opt(&c.min_log_level, |n| json!(*n)), "app": ids(&c.app_ids), "ctx": ids(&c.context_ids), "ecu": ids(&c.ecu_ids),
           // TLC integers are 32 bit: the counts are clipped to +-2^30 (every comparison with a set size keeps its outcome)
           "appc": c.app_id_count.clamp(-(1 << 30), 1 << 30), "ctxc": c.context_id_count.clamp(-(1 << 30), 1 << 30)})
}
