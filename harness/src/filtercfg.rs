//! The filter configuration as a document (spec/FilterJson.tla; beyond the listed properties, `./check extras`):
//! `read_filter_options` on a JSON text, the text serde writes for a configuration, and the conversion into the processed
//! configuration (both `From` implementations).
use crate::rng::Rng;
use crate::Out;
use dlt_core::dlt::LogLevel;
use dlt_core::filtering::{read_filter_options, DltFilterConfig, ProcessedDltFilterConfig};
use serde_json::{json, Value as J};
use std::io::{Seek, SeekFrom, Write};

const FIELDS: [&str; 6] = ["min_log_level", "app_ids", "ecu_ids", "context_ids", "app_id_count", "context_id_count"];
const IDS: [&str; 8] = ["", "APP", "ECU1", "CTX", "a", "LongerThanFour", "\u{e4}\u{f6}", "A\"q\\"];

fn entry(k: &str, t: &str, n: i64, s: &[String]) -> J { json!({"k": k, "t": t, "n": n, "s": s}) }
fn render_value(e: &J) -> String {
    match e["t"].as_str().unwrap() {
        "null" => "null".into(),
        "int" => e["n"].as_i64().unwrap().to_string(),
        "float" => format!("{}.5", e["n"].as_i64().unwrap()),
        "bool" => "true".into(),
        "str" => "\"3\"".into(),
        "list" => serde_json::to_string(&e["s"]).unwrap(),
        _ => unreachable!(),
    }
}
pub fn render(doc: &J, r: &mut Rng) -> String {
    let ws = |r: &mut Rng| *r.pick(&["", "", " ", "\n  "]);
    let ents = doc["ent"].as_array().unwrap();
    let body: Vec<String> = if doc["form"] == "map" {
        ents.iter().map(|e| format!("{}{}:{}{}", ws(r), serde_json::to_string(&e["k"]).unwrap(), ws(r), render_value(e))).collect()
    } else {
        ents.iter().map(|e| format!("{}{}", ws(r), render_value(e))).collect()
    };
    if doc["form"] == "map" { format!("{{{}{}}}", body.join(","), ws(r)) } else { format!("[{}{}]", body.join(","), ws(r)) }
}
fn ids(r: &mut Rng) -> Vec<String> { (0..r.below(4)).map(|_| r.pick(&IDS).to_string()).collect() }
fn value_for(name: &str, r: &mut Rng) -> J {
    let wrong = r.one_in(8);
    match name {
        "min_log_level" => match r.below(if wrong { 12 } else { 8 }) {
            0 | 1 => entry(name, "null", 0, &[]),
            2..=7 => entry(name, "int", *r.pick(&[0i64, 1, 2, 3, 4, 5, 6, 7, 100, 255]), &[]),
            8 => entry(name, "int", *r.pick(&[256i64, -1, 1000, 65536, 2147483647]), &[]),
            9 => entry(name, "str", 0, &[]),
            10 => entry(name, "float", 3, &[]),
            _ => entry(name, "list", 0, &ids(r)),
        },
        "app_ids" | "ecu_ids" | "context_ids" => match r.below(if wrong { 9 } else { 6 }) {
            0 | 1 => entry(name, "null", 0, &[]),
            2..=5 => entry(name, "list", 0, &ids(r)),
            6 => entry(name, "int", 1, &[]),
            7 => entry(name, "bool", 0, &[]),
            _ => entry(name, "str", 0, &[]),
        },
        _ => match r.below(if wrong { 10 } else { 6 }) {
            0..=5 => entry(name, "int", *r.pick(&[0i64, 1, 2, 3, 10, -1, -7, 255, 256, 70000, 2147483647, -2147483647]), &[]),
            6 => entry(name, "null", 0, &[]),
            7 => entry(name, "float", 2, &[]),
            8 => entry(name, "str", 0, &[]),
            _ => entry(name, "list", 0, &ids(r)),
        },
    }
}
pub fn gen_doc(r: &mut Rng) -> J {
    if r.one_in(6) {
        // sequence form: five to seven values, mostly the six in order
        let n = *r.pick(&[6usize, 6, 6, 6, 5, 7, 0]);
        let ent: Vec<J> = (0..n).map(|i| value_for(FIELDS[i.min(5)], r)).collect();
        return json!({"form": "seq", "ent": ent});
    }
    let mut ent: Vec<J> = vec![];
    for f in FIELDS {
        let optional = !f.ends_with("_count");
        let absent = if optional { r.one_in(3) } else { r.one_in(12) };
        if !absent { ent.push(value_for(f, r)); }
    }
    // keys the configuration does not know (near misses of the real names included), with any value
    for _ in 0..r.below(3) {
        let k = *r.pick(&["extra", "min_level", "appIds", "App_ids", "app_ids ", "", "context_id_counts"]);
        let mut v = value_for(*r.pick(&FIELDS), r);
        v["k"] = json!(k);
        ent.push(v);
    }
    // a known key twice (rare)
    if r.one_in(15) && !ent.is_empty() { let d = ent[r.below(ent.len() as u64) as usize].clone(); let k = d["k"].as_str().unwrap().to_string(); let mut v = value_for(if FIELDS.contains(&k.as_str()) { FIELDS[FIELDS.iter().position(|x| *x == k).unwrap()] } else { "app_ids" }, r); v["k"] = json!(k); ent.push(v); }
    // any order
    for i in (1..ent.len()).rev() { let j = r.below(i as u64 + 1) as usize; ent.swap(i, j); }
    json!({"form": "map", "ent": ent})
}
pub fn proj_cfg(c: &DltFilterConfig) -> J {
    let o = |x: &Option<Vec<String>>| match x { Some(v) => json!([v]), None => json!([]) };
    json!({"min": match c.min_log_level { Some(n) => json!([n]), None => json!([]) }, "app": o(&c.app_ids), "ecu": o(&c.ecu_ids), "ctx": o(&c.context_ids),
           "appc": c.app_id_count, "ctxc": c.context_id_count})
}
fn cfg_of(j: &J) -> DltFilterConfig {
    let o = |x: &J| x.get(0).map(|l| l.as_array().unwrap().iter().map(|s| s.as_str().unwrap().to_string()).collect::<Vec<_>>());
    DltFilterConfig { min_log_level: j["min"].get(0).map(|n| n.as_u64().unwrap() as u8), app_ids: o(&j["app"]), ecu_ids: o(&j["ecu"]), context_ids: o(&j["ctx"]),
                      app_id_count: j["appc"].as_i64().unwrap(), context_id_count: j["ctxc"].as_i64().unwrap() }
}
fn level_no(l: &LogLevel) -> i64 {
    match l { LogLevel::Fatal => 1, LogLevel::Error => 2, LogLevel::Warn => 3, LogLevel::Info => 4, LogLevel::Debug => 5, LogLevel::Verbose => 6, LogLevel::Invalid(n) => 1000 + *n as i64 }
}
fn proj_processed(p: &ProcessedDltFilterConfig) -> J {
    let o = |x: &Option<std::collections::HashSet<String>>| match x { Some(v) => { let mut l: Vec<&String> = v.iter().collect(); l.sort(); json!([l]) } None => json!([]) };
    json!({"min": match &p.min_log_level { Some(l) => json!([level_no(l)]), None => json!([]) }, "app": o(&p.app_ids), "ecu": o(&p.ecu_ids), "ctx": o(&p.context_ids),
           "appc": p.app_id_count, "ctxc": p.context_id_count})
}
fn res_of(c: Option<DltFilterConfig>) -> J { match c { Some(c) => json!({"v": "some", "cfg": proj_cfg(&c)}), None => json!({"v": "none"}) } }
/// `read_filter_options` on a file holding `text` (the public entry point), and the same text through serde_json directly
pub fn load_text(text: &str, scratch: &str) -> (J, J) {
    // one scratch file per process, rewritten for every text
    thread_local! { static SCRATCH: std::cell::RefCell<Option<std::fs::File>> = std::cell::RefCell::new(None); }
    let via_file = SCRATCH.with(|cell| {
        let mut slot = cell.borrow_mut();
        if slot.is_none() { *slot = Some(std::fs::OpenOptions::new().read(true).write(true).create(true).truncate(true).open(scratch).expect("scratch file")); }
        let f = slot.as_mut().unwrap();
        f.set_len(0).unwrap();
        f.seek(SeekFrom::Start(0)).unwrap();
        f.write_all(text.as_bytes()).unwrap();
        f.seek(SeekFrom::Start(0)).unwrap();
        std::panic::catch_unwind(std::panic::AssertUnwindSafe(|| read_filter_options(f)))
    });
    let direct = std::panic::catch_unwind(|| serde_json::from_str::<DltFilterConfig>(text).ok());
    (match via_file { Ok(c) => res_of(c), Err(_) => json!({"v": "panic"}) }, match direct { Ok(c) => res_of(c), Err(_) => json!({"v": "panic"}) })
}
pub fn load_event(doc: &J, text: &str, scratch: &str) -> J {
    let (a, b) = load_text(text, scratch);
    json!({"op": "load", "doc": doc, "res": a, "same": a == b})
}
/// the abstract document of a JSON text serde wrote (map form; the order of the entries is not kept by the reader used here)
fn doc_of_text(text: &str) -> J {
    let v: J = serde_json::from_str(text).expect("written text is JSON");
    let ent: Vec<J> = v.as_object().map(|m| m.iter().map(|(k, x)| match x {
        J::Null => entry(k, "null", 0, &[]),
        J::Number(n) if n.is_i64() => entry(k, "int", n.as_i64().unwrap(), &[]),
        J::Array(a) if a.iter().all(|s| s.is_string()) => entry(k, "list", 0, &a.iter().map(|s| s.as_str().unwrap().to_string()).collect::<Vec<_>>()),
        J::Bool(_) => entry(k, "bool", 0, &[]),
        J::Number(_) => entry(k, "float", 0, &[]),
        _ => entry(k, "str", 0, &[]),
    }).collect()).unwrap_or_default();
    json!({"form": if v.is_object() { "map" } else { "seq" }, "ent": ent})
}
pub fn written_event(c: &DltFilterConfig, scratch: &str) -> J {
    let text = serde_json::to_string(c).expect("serialise");
    let (a, _) = load_text(&text, scratch);
    json!({"op": "written", "cfg": proj_cfg(c), "doc": doc_of_text(&text), "res": a})
}
pub fn process_event(c: &DltFilterConfig) -> J {
    let by_ref = std::panic::catch_unwind(|| proj_processed(&ProcessedDltFilterConfig::from(c)));
    let cc = c.clone();
    let by_val = std::panic::catch_unwind(move || proj_processed(&ProcessedDltFilterConfig::from(cc)));
    match (by_ref, by_val) {
        (Ok(a), Ok(b)) => json!({"op": "process", "cfg": proj_cfg(c), "res": {"v": "ok", "p": a}, "same": a == b}),
        _ => json!({"op": "process", "cfg": proj_cfg(c), "res": {"v": "panic"}, "same": false}),
    }
}
pub fn gen_cfg(r: &mut Rng) -> DltFilterConfig {
    let o = |r: &mut Rng| if r.one_in(3) { None } else { Some(ids(r)) };
    DltFilterConfig { min_log_level: if r.one_in(3) { None } else { Some(*r.pick(&[0u8, 1, 2, 3, 4, 5, 6, 7, 16, 255])) }, app_ids: o(r), ecu_ids: o(r), context_ids: o(r),
                      app_id_count: *r.pick(&[0i64, 1, 2, 5, -1, 2147483647]), context_id_count: *r.pick(&[0i64, 1, 3, -3, 100]) }
}
pub fn record(mode: &str, seed: u64, n: usize, out: &mut Out, scratch: &str) {
    let mut r = Rng::new(seed);
    match mode {
        "json" => {
            for _ in 0..n {
                let doc = gen_doc(&mut r);
                let text = render(&doc, &mut r);
                out.calls += 2;
                out.emit(load_event(&doc, &text, scratch), true);
                let c = gen_cfg(&mut r);
                out.calls += 4;
                out.emit(written_event(&c, scratch), true);
                out.emit(process_event(&c), true);
            }
        }
        _ => panic!("unknown filtercfg mode {}", mode),
    }
    let _ = std::fs::remove_file(scratch);
}
/// cases of MCFilterJson: {doc, expect: [] | [cfg]}: the document is rendered (seeded white space) and loaded by the real code
pub fn replay(_mode: &str, cases: &[J], out: &mut Out, scratch: &str) {
    let mut r = Rng::new(7);
    for case in cases {
        let text = render(&case["doc"], &mut r);
        let (a, b) = load_text(&text, scratch);
        out.calls += 2;
        let want = match case["expect"].get(0) { Some(c) => json!({"v": "some", "cfg": proj_cfg(&cfg_of(c))}), None => json!({"v": "none"}) };
        if a != want || b != want {
            out.mismatches.push(json!({"what": "filterjson", "expected_class": want["v"], "observed_class": a["v"], "case": case, "expected": want, "observed": {"file": a, "direct": b, "text": text}}));
        }
        out.emit(json!({"case": "done"}), true);
    }
    let _ = std::fs::remove_file(scratch);
}
pub fn rerun(ev: &J, scratch: &str) -> J {
    let mut r = Rng::new(7);
    match ev["op"].as_str().unwrap_or("") {
        "load" => { let text = render(&ev["doc"], &mut r); load_event(&ev["doc"], &text, scratch) }
        "written" => written_event(&cfg_of(&ev["cfg"]), scratch),
        "process" => process_event(&cfg_of(&ev["cfg"])),
        _ => json!({"op": "unknown"}),
    }
}
