//! Suite "reader" (C07, C08, and the reader paths of C09): scripted byte sources in front of the real
//! DltMessageReader / DltStreamReader.  The harness owns the other side of the reader, so every read the
//! reader issues and every answer of the source is logged; no hook inside dlt-core is needed.
use crate::gen::{self, MsgOpts};
use crate::proj;
use crate::rng::Rng;
use crate::slice;
use crate::unproj;
use crate::Out;
use dlt_core::filtering::{DltFilterConfig, ProcessedDltFilterConfig};
use dlt_core::parse::DltParseError;
use dlt_core::read::DltMessageReader;
use dlt_core::stream::DltStreamReader;
use serde_json::{json, Value as J};
use std::cell::RefCell;
use std::io::{self, Read};
use std::panic::{catch_unwind, AssertUnwindSafe};
use std::pin::Pin;
use std::rc::Rc;
use std::task::{Context, Poll};

#[derive(Clone, Copy, Debug, PartialEq)]
pub enum Resp {
    Bytes(usize), // return up to this many bytes (at least 1, clipped to the request and to what is left)
    Retry,        // ErrorKind::Interrupted (blocking) / Poll::Pending (async)
}
pub struct Script {
    data: Vec<u8>,
    pos: usize,
    sched: Vec<Resp>,
    i: usize,
    log: Rc<RefCell<Vec<J>>>,
}
impl Script {
    /// a scripted source without a log (used by the statistics suite)
    pub fn plain(data: &[u8], sched: &[Resp]) -> Script {
        Script { data: data.to_vec(), pos: 0, sched: sched.to_vec(), i: 0, log: Rc::new(RefCell::new(vec![])) }
    }
    fn next(&mut self) -> Resp {
        let r = if self.i < self.sched.len() { self.sched[self.i] } else { Resp::Bytes(usize::MAX) };
        self.i += 1;
        r
    }
    fn entry(&self, ret: &str, req: usize, k: usize) {
        if self.log.borrow().len() > 100_000 { return; }
        self.log.borrow_mut().push(json!({"t": "src", "ret": ret, "req": req.min(1 << 30), "k": k}));
    }
    fn give(&mut self, k: usize, buf: &mut [u8]) -> usize {
        let left = self.data.len() - self.pos;
        let k = k.max(1).min(buf.len()).min(left);
        // watchdog: a reader that keeps asking a source that has reported its end 1000 times will never stop; the panic ends the
        // session with the outcome "panic" (a loop that does not even read cannot be caught this way)
        if k == 0 && !buf.is_empty() {
            let eofs = self.i.saturating_sub(self.sched.len());
            if self.pos == self.data.len() && eofs > 1000 + self.data.len() { panic!("source asked again and again after its end"); }
        }
        buf[..k].copy_from_slice(&self.data[self.pos..self.pos + k]);
        self.pos += k;
        self.entry(if k == 0 { "eof" } else { "bytes" }, buf.len(), k);
        k
    }
}
impl Read for Script {
    fn read(&mut self, buf: &mut [u8]) -> io::Result<usize> {
        match self.next() {
            Resp::Retry => {
                self.entry("intr", buf.len(), 0);
                Err(io::Error::new(io::ErrorKind::Interrupted, "interrupted"))
            }
            Resp::Bytes(k) => Ok(self.give(k, buf)),
        }
    }
}
impl futures::io::AsyncRead for Script {
    fn poll_read(mut self: Pin<&mut Self>, cx: &mut Context<'_>, buf: &mut [u8]) -> Poll<io::Result<usize>> {
        match self.next() {
            Resp::Retry => {
                self.entry("pend", buf.len(), 0);
                cx.waker().wake_by_ref();
                Poll::Pending
            }
            Resp::Bytes(k) => Poll::Ready(Ok(self.give(k, buf))),
        }
    }
}
fn end_entry(log: &Rc<RefCell<Vec<J>>>, v: &str) { end_entry_cls(log, v, "") }
/// `cls`: the class of a terminal error (C08: the asynchronous reader ends with an error of the same class as the blocking one)
fn end_entry_cls(log: &Rc<RefCell<Vec<J>>>, v: &str, cls: &str) {
    log.borrow_mut().push(json!({"t": "end", "ret": v, "req": 0, "k": 0, "cls": cls}));
}
fn err_class(e: &DltParseError) -> &'static str {
    match e { DltParseError::IncompleteParse { .. } => "incomplete", DltParseError::ParsingHickup(_) => "hickup", DltParseError::Unrecoverable(_) => "unrecoverable" }
}
/// the terminal entry of a read_message session: C07 only distinguishes end of stream from "an error" (a truncated tail may end either
/// way, and which variant an error has is not stated) - so every error is "err", whether it comes from the reader or from the parser
fn class(_e: &DltParseError) -> &'static str {
    "err"
}
/// one session of next_message_slice until the first terminal outcome; `log` interleaves source reads, deliveries and the end
pub fn slice_session(data: &[u8], sh: bool, sched: &[Resp], is_async: bool, cap: Option<usize>) -> (Vec<J>, Vec<Vec<u8>>) {
    let log = Rc::new(RefCell::new(vec![]));
    let script = Script { data: data.to_vec(), pos: 0, sched: sched.to_vec(), i: 0, log: log.clone() };
    let log2 = log.clone();
    let slices = Rc::new(RefCell::new(vec![]));
    let slices2 = slices.clone();
    let data2 = data.to_vec();
    let r = catch_unwind(AssertUnwindSafe(move || {
        let mut offset = 0usize;
        let mut deliver = |s: &[u8]| {
            let same = data2.len() >= offset + s.len() && &data2[offset..offset + s.len()] == s;
            log2.borrow_mut().push(json!({"t": "out", "ret": if same { "same" } else { "different" }, "req": 0, "k": s.len()}));
            offset += s.len();
            slices2.borrow_mut().push(s.to_vec());
        };
        if !is_async {
            // explicit capacities: a small BufReader (c < 65551, scratch buffer of the same size; only used by the drivers for streams
            // whose every declared message fits) or a large one
            let mut rd = match cap { Some(c) if c < 65551 => DltMessageReader::with_capacity(c, c, script, sh), Some(c) => DltMessageReader::with_capacity(c, 65551, script, sh), None => DltMessageReader::new(script, sh) };
            for _ in 0..1000 {
                match rd.next_message_slice() {
                    Ok(s) if s.is_empty() => { end_entry(&log2, "eos"); break; }
                    Ok(s) => deliver(s),
                    Err(e) => { end_entry_cls(&log2, "err", err_class(&e)); break; }
                }
            }
        } else {
            let mut rd = match cap { Some(c) if c < 65551 => DltStreamReader::with_capacity(c, c, script, sh), Some(c) => DltStreamReader::with_capacity(c, 65551, script, sh), None => DltStreamReader::new(script, sh) };
            futures::executor::block_on(async {
                for _ in 0..1000 {
                    match rd.next_message_slice().await {
                        Ok(s) if s.is_empty() => { end_entry(&log2, "eos"); break; }
                        Ok(s) => deliver(s),
                        Err(e) => { end_entry_cls(&log2, "err", err_class(&e)); break; }
                    }
                }
            });
        }
    }));
    if r.is_err() {
        end_entry(&log, "panic");
    }
    let l = log.borrow().clone();
    let s = slices.borrow().clone();
    (l, s)
}
/// growth beyond the listed properties (./check extras): a caller that goes on calling after an error.  The readers continue at the
/// position the source stands at; whatever they deliver then, repeated calls must reach the end of the stream (at most one call per
/// byte of the stream plus a few) and never panic.
pub fn continue_event(data: &[u8], sh: bool, sched: &[Resp], is_async: bool) -> J {
    let log = Rc::new(RefCell::new(vec![]));
    let script = Script { data: data.to_vec(), pos: 0, sched: sched.to_vec(), i: 0, log: log.clone() };
    let limit = data.len() + 8;
    let outs = Rc::new(RefCell::new(Vec::<J>::new()));
    let outs2 = outs.clone();
    let r = catch_unwind(AssertUnwindSafe(move || {
        let mut ended = false;
        if !is_async {
            let mut rd = DltMessageReader::new(script, sh);
            for _ in 0..limit {
                match rd.next_message_slice() {
                    Ok(s) if s.is_empty() => { ended = true; break; }
                    Ok(s) => outs2.borrow_mut().push(json!(s.len())),
                    Err(_) => outs2.borrow_mut().push(json!("err")),
                }
            }
        } else {
            let mut rd = DltStreamReader::new(script, sh);
            futures::executor::block_on(async {
                for _ in 0..limit {
                    match rd.next_message_slice().await {
                        Ok(s) if s.is_empty() => { ended = true; break; }
                        Ok(s) => outs2.borrow_mut().push(json!(s.len())),
                        Err(_) => outs2.borrow_mut().push(json!("err")),
                    }
                }
            });
        }
        ended
    }));
    let (v, ended) = match r { Ok(e) => ("ok", e), Err(_) => ("panic", false) };
    let o = outs.borrow().clone();
    json!({"op": "cont", "async": is_async, "sh": sh, "n": data.len(), "calls": o.len(), "res": {"v": v, "ended": ended}})
}
/// the same through read_message (parse included); results projected like slice parse results
pub fn message_session(data: &[u8], sh: bool, sched: &[Resp], is_async: bool, cfg: Option<&DltFilterConfig>) -> Vec<J> {
    message_session_cls(data, sh, sched, is_async, cfg, false)
}
/// `with_class`: the terminal error carries its class (C08: "an error of the same class" - also for read_message)
pub fn message_session_cls(data: &[u8], sh: bool, sched: &[Resp], is_async: bool, cfg: Option<&DltFilterConfig>, with_class: bool) -> Vec<J> {
    let log = Rc::new(RefCell::new(vec![]));
    let script = Script { data: data.to_vec(), pos: 0, sched: sched.to_vec(), i: 0, log: log.clone() };
    let processed: Option<ProcessedDltFilterConfig> = match slice::conv_opt(cfg) { Ok(p) => p, Err(()) => return vec![json!({"v": "panic"})] };
    let mut res = vec![];
    let r = catch_unwind(AssertUnwindSafe(|| {
        let mut out = vec![];
        let proj_pm = |pm: dlt_core::parse::ParsedMessage| match pm {
            dlt_core::parse::ParsedMessage::Item(m) => json!({"v": "msg", "m": proj::message(&m)}),
            dlt_core::parse::ParsedMessage::FilteredOut(n) => json!({"v": "filtered", "n": n}),
            dlt_core::parse::ParsedMessage::Invalid => json!({"v": "invalid"}),
        };
        if !is_async {
            let mut rd = DltMessageReader::new(script, sh);
            for _ in 0..1000 {
                match dlt_core::read::read_message(&mut rd, processed.as_ref()) {
                    Ok(Some(pm)) => out.push(proj_pm(pm)),
                    Ok(None) => { out.push(json!({"v": "eos"})); break; }
                    Err(e) => { out.push(if with_class { json!({"v": class(&e), "cls": err_class(&e)}) } else { json!({"v": class(&e)}) }); break; }
                }
            }
        } else {
            let mut rd = DltStreamReader::new(script, sh);
            futures::executor::block_on(async {
                for _ in 0..1000 {
                    match dlt_core::stream::read_message(&mut rd, processed.as_ref()).await {
                        Ok(Some(pm)) => out.push(proj_pm(pm)),
                        Ok(None) => { out.push(json!({"v": "eos"})); break; }
                        Err(e) => { out.push(if with_class { json!({"v": class(&e), "cls": err_class(&e)}) } else { json!({"v": class(&e)}) }); break; }
                    }
                }
            });
        }
        out
    }));
    match r {
        Ok(o) => res.extend(o),
        Err(_) => res.push(json!({"v": "panic"})),
    }
    res
}
pub fn sched_json(s: &[Resp]) -> J {
    J::Array(s.iter().map(|r| match r { Resp::Bytes(k) => json!((*k).min(1 << 30)), Resp::Retry => json!(0) }).collect())
}
pub fn sched_of_json(j: &J) -> Vec<Resp> {
    j.as_array().unwrap().iter().map(|x| match x.as_u64().unwrap() { 0 => Resp::Retry, k => Resp::Bytes(if k >= 1 << 30 { usize::MAX } else { k as usize }) }).collect()
}
/// C07 event: one blocking session (next_message_slice), plus read_message on the same schedule compared with parsing each delivered slice
pub fn reader_event(data: &[u8], sh: bool, sched: &[Resp], is_async: bool, cap: Option<usize>, cfg: Option<&DltFilterConfig>) -> J {
    let (log, slices) = slice_session(data, sh, sched, is_async, cap);
    let processed: Option<ProcessedDltFilterConfig> = match slice::conv_opt(cfg) { Ok(p) => p, Err(()) => return slice::convpanic(cfg) };
    // what parsing each delivered piece gives (class and message / payload length), ended like read_message ends
    let mut sp = vec![];
    let mut parse_ended = false;
    for s in &slices {
        let r = slice::parse_res(s, processed.as_ref(), sh, false);
        let v = r["v"].as_str().unwrap().to_string();
        match v.as_str() {
            "msg" => sp.push(json!({"v": "msg", "m": r["m"]})),
            "filtered" => sp.push(json!({"v": "filtered", "n": r["n"]})),
            "inc" => { sp.push(json!({"v": "err"})); parse_ended = true; break; }
            "rej" => { sp.push(json!({"v": "err"})); parse_ended = true; break; }
            other => { sp.push(json!({"v": other})); parse_ended = true; break; }
        }
    }
    if !parse_ended {
        let end = log.iter().find(|x| x["t"] == "end").map(|x| x["ret"].clone()).unwrap_or(json!("none"));
        sp.push(json!({"v": end}));
    }
    let pm = message_session(data, sh, sched, is_async, cfg);
    json!({"op": "reader", "async": is_async, "sh": sh, "cap": cap.unwrap_or(0), "stream": proj::bytes(data), "sched": sched_json(sched),
           "flt": proj::opt(&cfg, |c| proj::filter_config(c)), "log": log, "sp": sp, "spe": parse_ended, "pm": pm})
}
/// C08 event: the same bytes and the same schedule through both readers
pub fn pair_event(data: &[u8], sh: bool, sched: &[Resp]) -> J {
    pair_event_with(data, sh, sched, None, None)
}
/// ... with a reader capacity (both readers built by with_capacity) and a filter handed to read_message
pub fn pair_event_with(data: &[u8], sh: bool, sched: &[Resp], cap: Option<usize>, cfg: Option<&DltFilterConfig>) -> J {
    let (bl, _) = slice_session(data, sh, sched, false, cap);
    let (al, _) = slice_session(data, sh, sched, true, cap);
    let bm = message_session_cls(data, sh, sched, false, cfg, true);
    let am = message_session_cls(data, sh, sched, true, cfg, true);
    json!({"op": "pair", "sh": sh, "cap": cap.unwrap_or(0), "flt": proj::opt(&cfg, |c| proj::filter_config(c)), "stream": proj::bytes(data), "sched": sched_json(sched), "blog": bl, "alog": al, "bm": bm, "am": am})
}

/// streams built around special shapes: a message whose own header spells a storage / serial pattern; a stored message whose
/// storage header lacks the magic while its payload embeds a complete stored message followed by more bytes
pub fn special_stream(r: &mut Rng, sh: bool) -> Vec<u8> {
    let small = |r: &mut Rng| gen::ser(&gen::message(r, &MsgOpts { storage: Some(sh), big: 8, max_args: 2 }));
    let mut data = small(r);
    if data.is_empty() { return data; }
    if r.coin() || !sh {
        // HTYP 0x44, MCNT 0x4C, LEN 0x5401 ("DLT\x01") or 0x5301 ("DLS\x01")
        let len = if r.coin() { 0x5401usize } else { 0x5301 };
        if sh { data.extend(b"DLT\x01\0\0\0\0\0\0\0\0ECU\0"); }
        data.extend([0x44u8, 0x4C, (len >> 8) as u8, len as u8]);
        data.extend(b"ECU1");
        data.extend(r.bytes(len - 8));
    } else {
        let inner = small(r);
        let tail = 1 + r.below(5) as usize;
        let plen = 4 + inner.len() + tail;
        data.extend(b"DLT\x00\0\0\0\0\0\0\0\0ECU\0");          // no magic
        data.extend([0x20u8, 1, ((4 + plen) >> 8) as u8, (4 + plen) as u8]);
        data.extend([9, 9, 9, 9]);
        data.extend(&inner);
        data.extend(r.bytes(tail));
    }
    data.extend(small(r));
    data.extend(small(r));
    data
}
/// streams made of the hostile pieces the slice parsers are tried with (C03): whatever the parser does with a piece, the reader that
/// hands it over must not panic; plus a piece without leading pattern that carries the pattern within its last 15 bytes
pub fn hostile_stream(r: &mut Rng, sh: bool) -> Vec<u8> {
    let mut data = vec![];
    let pieces: Vec<Vec<u8>> = slice::hostile_inputs(r, 24).into_iter().filter(|(b, s)| *s == sh && b.len() < 70000 && !b.is_empty()).map(|(b, _)| b).collect();
    let np = 1 + r.below(4) as usize;
    for _ in 0..np {
        if r.one_in(5) && sh {
            // 16 bytes that are no storage header, a header declaring the rest, a payload that ends with the pattern and 0..11 bytes
            let k = r.below(12) as usize;
            let body = 6 + 4 + k;
            data.extend(b"XLT\x01\0\0\0\0\0\0\0\0ECU\0");
            data.extend([0x20u8, 3, ((4 + body) >> 8) as u8, (4 + body) as u8]);
            data.extend(r.bytes(6));
            data.extend(b"DLT\x01");
            data.extend(r.bytes(k));
        } else if !pieces.is_empty() {
            let p = &pieces[r.below(pieces.len() as u64) as usize];
            if data.len() + p.len() < 150000 { data.extend(p); }
        }
        if r.coin() { data.extend(gen::ser(&gen::message(r, &MsgOpts { storage: Some(sh), big: 8, max_args: 2 }))); }
    }
    data
}
/// messages whose total size (with storage header) or declared length sits within 16 bytes of a power of two between 2^8 and 2^15:
/// where a reader that grows or re-uses its buffers in steps would stumble
pub fn pow2_stream(r: &mut Rng, sh: bool) -> Vec<u8> {
    let mut data = vec![];
    let k = 8 + r.below(8) as u32;
    for _ in 0..1 + r.below(3) {
        let target = (1usize << k) - 20 + r.below(40) as usize;      // the declared length
        let extra = target.saturating_sub(4 + 10 + 4).max(1);
        let m = dlt_core::dlt::Message {
            storage_header: if sh { Some(dlt_core::dlt::StorageHeader { timestamp: dlt_core::dlt::DltTimeStamp { seconds: r.next() as u32, microseconds: r.next() as u32 }, ecu_id: "ECU".into() }) } else { None },
            header: dlt_core::dlt::StandardHeader { version: 1, endianness: dlt_core::dlt::Endianness::Little, has_extended_header: true, message_counter: r.next() as u8, ecu_id: None, session_id: None, timestamp: None,
                                                    payload_length: (4 + extra) as u16 },
            extended_header: Some(dlt_core::dlt::ExtendedHeader { verbose: false, argument_count: 0, message_type: dlt_core::dlt::MessageType::Log(dlt_core::dlt::LogLevel::Info), application_id: "A".into(), context_id: "C".into() }),
            payload: dlt_core::dlt::PayloadContent::NonVerbose(r.next() as u32, r.bytes(extra)),
        };
        data.extend(gen::ser(&m));
    }
    data
}
pub fn random_stream(r: &mut Rng, sh: bool) -> Vec<u8> {
    let mut data = vec![];
    for _ in 0..r.below(4) {
        let big = if r.one_in(15) { 3000 } else { 16 };
        let m = if r.one_in(40) { gen::boundary_message(r, Some(sh)) } else { gen::message(r, &MsgOpts { storage: Some(sh), big, max_args: 3 }) };
        let mut b = gen::ser(&m);
        if b.is_empty() { continue; }
        if r.one_in(6) { b = gen::mutate(r, &b, sh); }
        data.extend(b);
    }
    match r.below(8) {
        0 => { let c = r.below(data.len() as u64 + 1) as usize; data.truncate(c); }
        1 => { let k = r.below(30) as usize; data.extend(r.bytes(k)); }
        2 => { // a header that declares a length of 0..3
            let mut h = vec![0u8; if sh { 16 } else { 0 }];
            if sh { h[..4].copy_from_slice(b"DLT\x01"); }
            h.extend([0x21, 0, 0, r.below(4) as u8, 1, 2, 3]);
            data.extend(h);
        }
        3 => { // a maximal declared length with a short body
            let mut h = vec![0u8; if sh { 16 } else { 0 }];
            h.extend([0x21, 0, 0xFF, 0xFF]);
            let k = r.below(40) as usize;
            h.extend(r.bytes(k));
            data.extend(h);
        }
        _ => {}
    }
    data
}
pub fn random_sched(r: &mut Rng) -> Vec<Resp> {
    let style = r.below(6);
    let ns = r.below(60) as usize;
    (0..ns).map(|_| match style {
        0 => Resp::Bytes(1),                                                            // one byte at a time
        1 => if r.one_in(3) { Resp::Retry } else { Resp::Bytes(1 + r.below(3) as usize) },  // heavy interruption
        2 => Resp::Bytes(usize::MAX),
        3 => if r.one_in(2) { Resp::Retry } else { Resp::Bytes(usize::MAX) },
        _ => match r.below(8) { 0 => Resp::Retry, 1 => Resp::Bytes(usize::MAX), _ => Resp::Bytes(1 + r.below(24) as usize) },
    }).collect()
}

/// ... or, one time in four, a short pattern of fragment sizes and retries repeated until the whole stream has been handed out (so that the
/// third, fourth ... message of a stream is reached by short and interrupted reads too); fragment sizes grow with the stream so that
/// a log stays below about 1500 source reads
pub fn sched_for(r: &mut Rng, len: usize) -> Vec<Resp> {
    if !r.one_in(4) || len == 0 { return random_sched(r); }
    let unit = 1 + len / 700;
    let p = 1 + r.below(5) as usize;
    let pat: Vec<Resp> = (0..p).map(|_| match r.below(5) { 0 => Resp::Retry, 1 => Resp::Bytes(unit), _ => Resp::Bytes(unit * (1 + r.below(7) as usize)) }).collect();
    let per: usize = pat.iter().map(|x| match x { Resp::Bytes(k) => *k, Resp::Retry => 0 }).sum();
    if per == 0 { return random_sched(r); }
    let reps = len / per + 2;
    (0..reps).flat_map(|_| pat.clone()).collect()
}

pub fn record(mode: &str, seed: u64, n: usize, out: &mut Out) {
    let mut r = Rng::new(seed);
    match mode {
        // C07 (blocking) - also run for the async reader so that its log is validated against the same model
        "blocking" | "async" => {
            for i in 0..n {
                let sh = r.coin();
                let data = if i % 40 == 13 { special_stream(&mut r, sh) } else if i % 8 == 5 { hostile_stream(&mut r, sh) } else if i % 16 == 3 { pow2_stream(&mut r, sh) } else { random_stream(&mut r, sh) };
                let sched = sched_for(&mut r, data.len());
                let cfg = if i % 3 == 0 { Some(slice::random_filter(&mut r, None)) } else { None };
                // the largest message any header position of this stream could declare: small capacities are only legitimate above it
                let o = if sh { 16 } else { 0 };
                let mut maxdecl = o + 4;
                for p in 0..data.len().saturating_sub(o + 3) { let d = o + ((data[p + o + 2] as usize) << 8 | data[p + o + 3] as usize); if d > maxdecl { maxdecl = d; } }
                let cap = if i % 5 == 0 { Some(65551 + r.below(100) as usize) } else if i % 5 == 1 && maxdecl < 400 { Some(maxdecl + r.below(40) as usize) } else { None };
                out.calls += 3;
                let e = reader_event(&data, sh, &sched, mode == "async", cap, cfg.as_ref());
                let nsrc = e["log"].as_array().map(|l| l.iter().filter(|x| x["t"] == "src").count()).unwrap_or(0);
                out.emit(e, nsrc >= 2);
            }
            // every hostile piece of one base message as the head of its own stream (a session ends at the first error, so a piece
            // further back would never reach the parser), read in one go and byte by byte
            for _ in 0..(n / 50).max(1) {
                for (piece, psh) in slice::hostile_inputs(&mut r, 24) {
                    if piece.is_empty() || piece.len() > 2000 { continue; }
                    let mut data = piece.clone();
                    data.extend(gen::ser(&gen::message(&mut r, &MsgOpts { storage: Some(psh), big: 4, max_args: 1 })));
                    let sched = if r.coin() { vec![Resp::Bytes(usize::MAX)] } else { vec![Resp::Bytes(1)] };
                    out.calls += 3;
                    out.emit(reader_event(&data, psh, &sched, mode == "async", None, None), true);
                }
            }
            // systematic families on one small stream: all-1-byte, every 2- and 3-partition, interruption before every read
            let sh = r.coin();
            let m1 = gen::ser(&gen::message(&mut r, &MsgOpts { storage: Some(sh), big: 4, max_args: 1 }));
            let m2 = gen::ser(&gen::message(&mut r, &MsgOpts { storage: Some(sh), big: 4, max_args: 1 }));
            let mut data = m1.clone();
            data.extend(&m2);
            let len = data.len();
            for a in 1..len.min(48) {
                out.calls += 3;
                out.emit(reader_event(&data, sh, &[Resp::Bytes(a)], mode == "async", None, None), true);
                let b = 1 + (a * 7) % (len - a).max(1);
                out.emit(reader_event(&data, sh, &[Resp::Bytes(a), Resp::Retry, Resp::Bytes(b), Resp::Retry], mode == "async", None, None), true);
            }
            let inter: Vec<Resp> = (0..2 * len).map(|i| if i % 2 == 0 { Resp::Retry } else { Resp::Bytes(1) }).collect();
            out.emit(reader_event(&data, sh, &inter, mode == "async", None, None), true);
        }
        // extras: sessions that go on after errors
        "cont" => {
            for i in 0..n {
                let sh = r.coin();
                let mut data = if i % 3 == 0 { hostile_stream(&mut r, sh) } else { random_stream(&mut r, sh) };
                if i % 4 == 1 {
                    // a header declaring a length of 0..3 between complete messages (garbage, zero padding)
                    let mut h = vec![0u8; if sh { 16 } else { 0 }];
                    if sh { h[..4].copy_from_slice(b"DLT\x01"); }
                    h.extend([if r.coin() { 0x21 } else { 0 }, 0, 0, r.below(4) as u8]);
                    data.extend(h);
                    data.extend(gen::ser(&gen::message(&mut r, &MsgOpts { storage: Some(sh), big: 6, max_args: 1 })));
                    data.extend(gen::ser(&gen::message(&mut r, &MsgOpts { storage: Some(sh), big: 6, max_args: 1 })));
                }
                let sched = sched_for(&mut r, data.len());
                out.calls += 2;
                out.emit(continue_event(&data, sh, &sched, false), data.len() > 8);
                out.emit(continue_event(&data, sh, &sched, true), data.len() > 8);
            }
        }
        // C08: both readers on the same bytes and schedule
        "pair" => {
            for i in 0..n {
                let sh = r.coin();
                let data = if i % 40 == 13 { special_stream(&mut r, sh) } else if i % 8 == 5 { hostile_stream(&mut r, sh) } else if i % 16 == 3 { pow2_stream(&mut r, sh) } else { random_stream(&mut r, sh) };
                let sched = sched_for(&mut r, data.len());
                out.calls += 4;
                // every third pair with a filter, two in five with explicit capacities (as in the sessions of mode "blocking")
                let cfg = if i % 3 == 0 { Some(slice::random_filter(&mut r, None)) } else { None };
                let o = if sh { 16 } else { 0 };
                let mut maxdecl = o + 4;
                for p in 0..data.len().saturating_sub(o + 3) { let d = o + ((data[p + o + 2] as usize) << 8 | data[p + o + 3] as usize); if d > maxdecl { maxdecl = d; } }
                let cap = if i % 5 == 0 { Some(65551 + r.below(100) as usize) } else if i % 5 == 1 && maxdecl < 400 { Some(maxdecl + r.below(40) as usize) } else { None };
                out.emit(pair_event_with(&data, sh, &sched, cap, cfg.as_ref()), data.len() > 8);
            }
            // every hostile piece of one base message as the head of its own stream, read in one go and byte by byte
            for _ in 0..(n / 50).max(1) {
                for (piece, psh) in slice::hostile_inputs(&mut r, 24) {
                    if piece.is_empty() || piece.len() > 2000 { continue; }
                    let mut data = piece.clone();
                    data.extend(gen::ser(&gen::message(&mut r, &MsgOpts { storage: Some(psh), big: 4, max_args: 1 })));
                    let sched = if r.coin() { vec![Resp::Bytes(usize::MAX)] } else { vec![Resp::Bytes(1)] };
                    out.calls += 4;
                    out.emit(pair_event(&data, psh, &sched), true);
                }
            }
            // systematic families on one small stream: every fragment size, two-fragment patterns with pending polls, a pending poll before every byte
            let sh = r.coin();
            let mut data = gen::ser(&gen::message(&mut r, &MsgOpts { storage: Some(sh), big: 4, max_args: 1 }));
            data.extend(gen::ser(&gen::message(&mut r, &MsgOpts { storage: Some(sh), big: 4, max_args: 1 })));
            let len = data.len();
            for a in 1..len.min(48) {
                out.calls += 8;
                out.emit(pair_event(&data, sh, &[Resp::Bytes(a)]), true);
                let b = 1 + (a * 7) % (len - a).max(1);
                out.emit(pair_event(&data, sh, &[Resp::Bytes(a), Resp::Retry, Resp::Bytes(b), Resp::Retry]), true);
                // the same stream cut short after a bytes (a truncated tail at every position)
                out.emit(pair_event(&data[..a], sh, &[Resp::Bytes(3), Resp::Retry]), true);
            }
            let inter: Vec<Resp> = (0..2 * len).map(|i| if i % 2 == 0 { Resp::Retry } else { Resp::Bytes(1) }).collect();
            out.emit(pair_event(&data, sh, &inter), true);
        }
        _ => panic!("unknown reader mode {}", mode),
    }
}
pub fn rerun(ev: &J) -> J {
    let data = unproj::bytes(&ev["stream"]);
    let sh = ev["sh"].as_bool().unwrap();
    let sched = sched_of_json(&ev["sched"]);
    match ev["op"].as_str().unwrap_or("") {
        "reader" => {
            let cfg: Option<DltFilterConfig> = ev.get("flt").and_then(|f| f.as_array()).and_then(|a| a.first()).map(unproj::filter_config);
            let cap = match ev["cap"].as_u64().unwrap_or(0) { 0 => None, c => Some(c as usize) };
            reader_event(&data, sh, &sched, ev["async"].as_bool().unwrap(), cap, cfg.as_ref())
        }
        "pair" => {
            let cfg: Option<DltFilterConfig> = ev.get("flt").and_then(|f| f.as_array()).and_then(|a| a.first()).map(unproj::filter_config);
            let cap = match ev.get("cap").and_then(|c| c.as_u64()).unwrap_or(0) { 0 => None, c => Some(c as usize) };
            pair_event_with(&data, sh, &sched, cap, cfg.as_ref())
        }
        _ => json!({"op": "unknown"}),
    }
}

/// direction A: schedules generated by TLC (simulation of MCReaderSim): {stream, sh, sched: [k | 0 = retry | -1 = eof], expect: {out, term}}
pub fn replay(mode: &str, cases: &[J], out: &mut Out) {
    for case in cases {
        let data = unproj::bytes(&case["stream"]);
        let sh = case["sh"].as_bool().unwrap();
        let sched: Vec<Resp> = case["sched"].as_array().unwrap().iter().filter_map(|x| match x.as_i64().unwrap() { 0 => Some(Resp::Retry), k if k > 0 => Some(Resp::Bytes(k as usize)), _ => None }).collect();
        let want_out: Vec<u64> = case["expect"]["out"].as_array().unwrap().iter().map(|x| x.as_u64().unwrap()).collect();
        let allowed: Vec<&str> = case["expect"]["allowed"].as_array().unwrap().iter().map(|x| x.as_str().unwrap()).collect();
        if mode == "pair" {
            // C08: the async reader against the blocking reader on the same schedule
            let (bl, _) = slice_session(&data, sh, &sched, false, None);
            let (al, _) = slice_session(&data, sh, &sched, true, None);
            out.calls += 2;
            let outs = |l: &Vec<J>| -> Vec<u64> { l.iter().filter(|x| x["t"] == "out").map(|x| x["k"].as_u64().unwrap()).collect() };
            let end = |l: &Vec<J>| -> String { l.iter().find(|x| x["t"] == "end").map(|x| x["ret"].as_str().unwrap().to_string()).unwrap_or("none".into()) };
            let cls = |l: &Vec<J>| -> String { l.iter().find(|x| x["t"] == "end").and_then(|x| x["cls"].as_str()).unwrap_or("").to_string() };
            if outs(&bl) != outs(&al) || end(&bl) != end(&al) || cls(&bl) != cls(&al) || end(&al) == "panic" || end(&al) == "none" {
                out.mismatches.push(json!({"what": "async vs blocking", "expected_class": end(&bl), "observed_class": end(&al), "case": case,
                    "expected": {"out": outs(&bl), "end": end(&bl)}, "observed": {"out": outs(&al), "end": end(&al)}}));
            }
            out.emit(json!({"case": "done"}), sched.len() >= 2);
            continue;
        }
        for is_async in [false, true] {
            if (mode == "blocking" && is_async) || (mode == "async" && !is_async) { continue; }
            let (log, _) = slice_session(&data, sh, &sched, is_async, None);
            out.calls += 1;
            let got_out: Vec<u64> = log.iter().filter(|x| x["t"] == "out").map(|x| x["k"].as_u64().unwrap()).collect();
            let same = log.iter().filter(|x| x["t"] == "out").all(|x| x["ret"] == "same");
            let end = log.iter().find(|x| x["t"] == "end").map(|x| x["ret"].as_str().unwrap().to_string()).unwrap_or("none".into());
            if got_out != want_out || !same || !allowed.contains(&end.as_str()) {
                out.mismatches.push(json!({"what": if is_async { "async reader" } else { "blocking reader" }, "expected_class": allowed.join("|"), "observed_class": end,
                    "case": case, "expected": case["expect"], "observed": {"out": got_out, "end": end, "content_same": same}}));
            }
        }
        out.emit(json!({"case": "done"}), sched.len() >= 2);
    }
}
