//! dltv - conformance harness binding the TLA+ specification (/verif/spec) to dlt-core (/repo).
//!   dltv record <suite> <mode> --seed S --n N --out FILE     direction B: drive the code, log NDJSON events
//!   dltv replay <suite> <cases.ndjson> --out FILE            direction A: replay TLC-generated cases
//! A side file FILE.stats.json carries the measured counts that go into the evidence.
mod build;
mod codes;
mod fibex;
mod filtercfg;
mod gen;
mod proj;
mod reader;
mod replay;
mod rng;
mod slice;
mod stats;
mod unproj;

use serde_json::{json, Value as J};
use std::collections::hash_map::DefaultHasher;
use std::collections::HashSet;
use std::hash::{Hash, Hasher};
use std::io::{BufWriter, Write};

/// event sink with the measured coverage counters
pub struct Out {
    w: BufWriter<std::fs::File>,
    pub events: u64,
    pub calls: u64,         // calls into dlt-core
    pub nontrivial: u64,
    seen: HashSet<u64>,     // hashes of distinct non-trivial events
    pub samples: Vec<J>,
    pub mismatches: Vec<J>, // direction A only
    pub classes: std::collections::BTreeMap<String, u64>, // events per op and outcome class (vacuity guard)
    pub keep_convpanic: bool, // a panic of the filter-configuration conversion is data for C03 / C09 and a skipped sample elsewhere
}
impl Out {
    pub fn new(path: &str) -> Self {
        Out { w: BufWriter::new(std::fs::File::create(path).expect("create output")), events: 0, calls: 0, nontrivial: 0, seen: HashSet::new(), samples: vec![], mismatches: vec![], classes: Default::default(), keep_convpanic: false }
    }
    pub fn emit(&mut self, e: J, nontrivial: bool) {
        if e.get("op").and_then(|o| o.as_str()) == Some("convpanic") && !self.keep_convpanic { return; }
        let line = serde_json::to_string(&e).unwrap();
        if let Some(op) = e.get("op").and_then(|o| o.as_str()) {
            let v = e.get("res").and_then(|r| r.get("v")).and_then(|v| v.as_str()).unwrap_or("-");
            let api = e.get("api").and_then(|a| a.as_str()).unwrap_or("");
            *self.classes.entry(format!("{}{}{}:{}", op, if api.is_empty() { "" } else { "/" }, api, v)).or_insert(0) += 1;
        }
        if nontrivial {
            self.nontrivial += 1;
            let mut h = DefaultHasher::new();
            line.hash(&mut h);
            self.seen.insert(h.finish());
        }
        if self.samples.len() < 2 || (self.events % 997 == 0 && self.samples.len() < 4) {
            if line.len() < 1500 {
                self.samples.push(e);
            }
        }
        self.events += 1;
        self.w.write_all(line.as_bytes()).unwrap();
        self.w.write_all(b"\n").unwrap();
    }
    pub fn finish(mut self, path: &str, extra: J) {
        self.w.flush().unwrap();
        let stats = json!({"events": self.events, "calls": self.calls, "nontrivial": self.nontrivial, "distinct_nontrivial": self.seen.len(),
                           "samples": self.samples, "mismatches": self.mismatches, "classes": self.classes, "extra": extra});
        std::fs::write(format!("{}.stats.json", path), serde_json::to_string(&stats).unwrap()).unwrap();
    }
}

fn arg<'a>(args: &'a [String], name: &str) -> Option<&'a str> {
    args.iter().position(|a| a == name).and_then(|i| args.get(i + 1)).map(|s| s.as_str())
}

/// a logger that accepts everything and discards it: with it installed at Trace level the library's log statements are evaluated
/// (their arguments are computed), as they are in an application that has logging switched on
struct Sink;
impl log::Log for Sink {
    fn enabled(&self, _: &log::Metadata) -> bool { true }
    fn log(&self, r: &log::Record) { let _ = format!("{}", r.args()); }
    fn flush(&self) {}
}
static SINK: Sink = Sink;

fn main() {
    let args: Vec<String> = std::env::args().collect();
    if std::env::var("DLTV_NO_LOG").is_err() {
        let _ = log::set_logger(&SINK);
        log::set_max_level(log::LevelFilter::Trace);
    }
    if std::env::var("DLTV_BT").is_err() { std::panic::set_hook(Box::new(|_| {})); } // a panic in the code under test is data, not noise (DLTV_BT=1: keep the messages, for debugging the drivers)
    let seed: u64 = arg(&args, "--seed").map(|s| s.parse().expect("seed")).unwrap_or(1);
    let n: usize = arg(&args, "--n").map(|s| s.parse().expect("n")).unwrap_or(100);
    let out_path = arg(&args, "--out").unwrap_or("/dev/stdout").to_string();
    match args.get(1).map(|s| s.as_str()) {
        Some("record") => {
            let suite = args[2].as_str();
            let mode = args[3].as_str();
            let mut out = Out::new(&out_path);
            match suite {
                "slice" => slice::record(mode, seed, n, &mut out),
                "build" => build::record(mode, seed, n, &mut out),
                "reader" => reader::record(mode, seed, n, &mut out),
                "stats" => stats::record(mode, seed, n, &mut out),
                "fibex" => fibex::record(mode, seed, n, &mut out, &out_path),
                "codes" => codes::record(mode, seed, n, &mut out, arg(&args, "--shard").map(|s| s.parse().unwrap()).unwrap_or(0), arg(&args, "--of").map(|s| s.parse().unwrap()).unwrap_or(1)),
                "filtercfg" => filtercfg::record(mode, seed, n, &mut out, &format!("{}.scratch.json", out_path)),
                _ => { eprintln!("unknown suite {}", suite); std::process::exit(2) }
            }
            out.finish(&out_path, json!({}));
        }
        Some("replay") => {
            let suite = args[2].as_str();
            let mode = args[3].as_str();
            // the cases file can be several GB (thorough tier): read and replay it in chunks
            use std::io::BufRead;
            let accept: Option<Vec<String>> = arg(&args, "--accept").map(|a| a.split(',').map(|x| x.to_string()).collect());
            let file = std::io::BufReader::with_capacity(1 << 20, std::fs::File::open(&args[4]).expect("cases file"));
            let mut out = Out::new(&out_path);
            let mut total = 0usize;
            let mut cases: Vec<J> = vec![];
            let mut bytes = 0usize;
            let mut run_chunk = |cases: &mut Vec<J>, out: &mut Out| {
                if cases.is_empty() { return; }
                match suite {
                    "slice" => replay::slice_cases(mode, cases, out),
                    "build" => build::replay(mode, cases, out),
                    "reader" => reader::replay(mode, cases, out),
                    "stats" => stats::replay(mode, cases, out),
                    "fibex" => fibex::replay(mode, cases, out, &out_path),
                    "filtercfg" => filtercfg::replay(mode, cases, out, &format!("{}.scratch.json", out_path)),
                    _ => { eprintln!("unknown suite {}", suite); std::process::exit(2) }
                }
                cases.clear();
            };
            for line in file.lines() {
                let line = line.expect("cases file line");
                if line.trim().is_empty() { continue; }
                let c: J = serde_json::from_str(&line).expect("case json");
                let modes: Vec<&String> = accept.iter().flatten().filter(|x| !x.starts_with('@')).collect();
                let keep = match c.get("mode").and_then(|m| m.as_str()) { Some(m) if !modes.is_empty() => modes.iter().any(|x| x.as_str() == m), _ => true };
                if !keep { continue; }
                // "@parser": only calls of the message parser without a filter (C02 states the parser's verdict; what the skipper, the
                // storage-header helpers and the filter decide belongs to other statements or to none)
                if accept.iter().flatten().any(|x| x == "@parser") {
                    let ev = &c["ev"];
                    let op = ev["op"].as_str().unwrap_or("");
                    let unfiltered = ev.get("flt").map(|f| f.is_null() || f.as_array().map(|a| a.is_empty()).unwrap_or(false)).unwrap_or(true);
                    let parser = match op { "parse" => unfiltered, "session" => ev["api"] == "parse" && unfiltered, _ => false };
                    if !parser { continue; }
                }
                bytes += line.len();
                total += 1;
                cases.push(c);
                if cases.len() >= 20000 || bytes >= (64 << 20) { run_chunk(&mut cases, &mut out); bytes = 0; }
            }
            run_chunk(&mut cases, &mut out);
            out.finish(&out_path, json!({"cases": total}));
        }
        Some("fibex-child") => fibex::child_main(&args[2]),
        Some("sweep") => {
            // dltv sweep --per-low K --threads T --seed S : the reserved type-info bits (C14)
            let per_low: u32 = arg(&args, "--per-low").map(|s| s.parse().unwrap()).unwrap_or(64);
            let threads: u32 = arg(&args, "--threads").map(|s| s.parse().unwrap()).unwrap_or(8);
            println!("{}", codes::sweep(seed, per_low, threads));
        }
        Some("rerun") => {
            let suite = args[2].as_str();
            let ev: J = serde_json::from_str(&std::fs::read_to_string(&args[3]).expect("event file")).expect("event json");
            let mut out = Out::new(&out_path);
            let e = match suite {
                "slice" => slice::rerun(&ev),
                "build" => build::rerun(&ev),
                "reader" => reader::rerun(&ev),
                "stats" => stats::rerun(&ev),
                "fibex" => fibex::rerun(&ev, &out_path),
                "codes" => codes::rerun(&ev),
                "filtercfg" => filtercfg::rerun(&ev, &format!("{}.scratch.json", out_path)),
                _ => { eprintln!("unknown suite {}", suite); std::process::exit(2) }
            };
            out.emit(e, true);
            out.finish(&out_path, json!({}));
        }
        _ => {
            eprintln!("usage: dltv record <suite> <mode> --seed S --n N --out FILE | dltv replay <suite> <cases> --out FILE");
            std::process::exit(2);
        }
    }
}
