//! Random generators for the drivers of direction B: well-formed message values (the quantifier
//! of C01/C15: canonical enumeration codes, ids <= 4 bytes, no NUL in text, consistent flags and
//! lengths), and byte-level mutations of their serialisations.
use crate::rng::Rng;
use dlt_core::dlt::*;

pub const WIDTHS: [TypeLength; 5] = [TypeLength::BitLength8, TypeLength::BitLength16, TypeLength::BitLength32, TypeLength::BitLength64, TypeLength::BitLength128];
pub const FWIDTHS: [FloatWidth; 2] = [FloatWidth::Width32, FloatWidth::Width64];

pub fn id(r: &mut Rng) -> String {
    match r.below(8) {
        0 => String::new(),
        1 => "é".to_string(),
        2 => "éé".to_string(),
        3 => "€a".to_string(),
        4 => "😀".to_string(),
        _ => r.ident(4),
    }
}
pub fn coding(r: &mut Rng) -> StringCoding {
    match r.below(4) {
        0 => StringCoding::ASCII,
        1 => StringCoding::UTF8,
        _ => StringCoding::Reserved(2 + r.below(6) as u8),
    }
}
pub fn kind(r: &mut Rng) -> TypeInfoKind {
    match r.below(8) {
        0 => TypeInfoKind::Bool,
        1 => TypeInfoKind::Signed(*r.pick(&WIDTHS)),
        2 => TypeInfoKind::Unsigned(*r.pick(&WIDTHS)),
        3 => TypeInfoKind::SignedFixedPoint(*r.pick(&FWIDTHS)),
        4 => TypeInfoKind::UnsignedFixedPoint(*r.pick(&FWIDTHS)),
        5 => TypeInfoKind::Float(*r.pick(&FWIDTHS)),
        6 => TypeInfoKind::StringType,
        _ => TypeInfoKind::Raw,
    }
}
fn u128r(r: &mut Rng) -> u128 {
    (r.next() as u128) << 64 | r.next() as u128
}
/// full-range value matching the kind
pub fn value_for(r: &mut Rng, kind: &TypeInfoKind, big: usize) -> Value {
    match kind {
        TypeInfoKind::Bool => Value::Bool(r.next() as u8),
        TypeInfoKind::Signed(TypeLength::BitLength8) => Value::I8(r.next() as i8),
        TypeInfoKind::Signed(TypeLength::BitLength16) => Value::I16(r.next() as i16),
        TypeInfoKind::Signed(TypeLength::BitLength32) | TypeInfoKind::SignedFixedPoint(FloatWidth::Width32) => Value::I32(r.next() as i32),
        TypeInfoKind::Signed(TypeLength::BitLength64) | TypeInfoKind::SignedFixedPoint(FloatWidth::Width64) => Value::I64(r.next() as i64),
        TypeInfoKind::Signed(TypeLength::BitLength128) => Value::I128(u128r(r) as i128),
        TypeInfoKind::Unsigned(TypeLength::BitLength8) => Value::U8(r.next() as u8),
        TypeInfoKind::Unsigned(TypeLength::BitLength16) => Value::U16(r.next() as u16),
        TypeInfoKind::Unsigned(TypeLength::BitLength32) | TypeInfoKind::UnsignedFixedPoint(FloatWidth::Width32) => Value::U32(r.next() as u32),
        TypeInfoKind::Unsigned(TypeLength::BitLength64) | TypeInfoKind::UnsignedFixedPoint(FloatWidth::Width64) => Value::U64(r.next()),
        TypeInfoKind::Unsigned(TypeLength::BitLength128) => Value::U128(u128r(r)),
        TypeInfoKind::Float(FloatWidth::Width32) => Value::F32(f32::from_bits(r.next() as u32)),
        TypeInfoKind::Float(FloatWidth::Width64) => Value::F64(f64::from_bits(r.next())),
        TypeInfoKind::StringType => {
            let n = if r.one_in(10) { big } else { 12 };
            let mut t = r.text(n);
            if r.one_in(8) { t.push_str("DLT\u{1}x"); }
            if r.one_in(12) { t.insert(0, '\u{feff}'); }
            Value::StringVal(t)
        }
        TypeInfoKind::Raw => {
            let n = if r.one_in(10) { r.below(big as u64 + 1) as usize } else { r.below(9) as usize };
            let mut v = r.bytes(n);
            if r.one_in(6) { let at = r.below(v.len() as u64 + 1) as usize; for (i, b) in b"DLT\x01".iter().enumerate() { v.insert(at + i, *b); } }   // a payload that itself contains the storage-header pattern
            Value::Raw(v)
        }
    }
}
pub fn argument(r: &mut Rng, big: usize) -> Argument {
    let vari = r.coin();
    let kind = kind(r);
    let name_only = matches!(kind, TypeInfoKind::Bool | TypeInfoKind::StringType | TypeInfoKind::Raw);
    let value = value_for(r, &kind, big);
    let fixed_point = match kind {
        TypeInfoKind::SignedFixedPoint(FloatWidth::Width32) | TypeInfoKind::UnsignedFixedPoint(FloatWidth::Width32) => {
            Some(FixedPoint { quantization: f32::from_bits(r.next() as u32), offset: FixedPointValue::I32(r.next() as i32) })
        }
        TypeInfoKind::SignedFixedPoint(FloatWidth::Width64) | TypeInfoKind::UnsignedFixedPoint(FloatWidth::Width64) => {
            Some(FixedPoint { quantization: f32::from_bits(r.next() as u32), offset: FixedPointValue::I64(r.next() as i64) })
        }
        _ => None,
    };
    Argument {
        type_info: TypeInfo { kind, coding: coding(r), has_variable_info: vari, has_trace_info: r.coin() },
        name: if vari { let n = if r.one_in(12) { big.min(300) } else { 6 }; Some(r.text(n)) } else { None },
        unit: if vari && !name_only { Some(r.text(4)) } else { None },
        fixed_point,
        value,
    }
}
/// canonical message types, excluding the classes in `not`
pub fn message_type(r: &mut Rng, not: &[u8]) -> MessageType {
    loop {
        let mstp = r.below(8) as u8;
        if not.contains(&mstp) {
            continue;
        }
        let mtin = r.below(16) as u8;
        return crate::unproj::msg_type(&serde_json::json!([mstp, mtin]));
    }
}
/// serialised length of a payload (PayloadContent::as_bytes is crate-private), computed from its parts so that the driver does
/// not depend on Message::as_bytes accepting a message whose length field is not filled in yet
/// The payload length a well-formed message value records: the number of bytes ITS payload serialises to ("payload length consistent
/// with the payload" - C01, C05, C09, C15, C16 ... speak about a message and its own serialisation; that the serialisation has the
/// prescribed layout is C02's business alone, whose drivers use the reference encoder of the specification).  Taken from the crate's
/// writer through a minimal message (PayloadContent::as_bytes is not public); the independent formula only if the writer panics.
pub fn payload_len(p: &PayloadContent, e: Endianness) -> usize {
    let formula = || match p {
        PayloadContent::Verbose(args) => args.iter().map(|a| {
            let a2 = a.clone();
            std::panic::catch_unwind(move || match e { Endianness::Big => a2.as_bytes::<byteorder::BigEndian>().len(), Endianness::Little => a2.as_bytes::<byteorder::LittleEndian>().len() }).unwrap_or(0)
        }).sum(),
        PayloadContent::NonVerbose(_, d) => 4 + d.len(),
        PayloadContent::ControlMsg(_, d) => 1 + d.len(),
        PayloadContent::NetworkTrace(slices) => slices.iter().map(|s| 4 + 2 + s.len()).sum(),
    };
    let probe = Message {
        storage_header: None,
        header: StandardHeader { version: 1, endianness: e, has_extended_header: false, message_counter: 0, ecu_id: None, session_id: None, timestamp: None, payload_length: 0 },
        extended_header: None,
        payload: p.clone(),
    };
    match std::panic::catch_unwind(move || (probe.as_bytes().len(), probe.header.as_bytes().len())) {
        Ok((all, hdr)) if all >= hdr => all - hdr,
        _ => formula(),
    }
}
/// the same for a finished message value (cases generated by TLC carry the reference layout's payload length)
pub fn own_payload_len(m: &Message) -> usize {
    payload_len(&m.payload, m.header.endianness)
}
/// Message::as_bytes for the drivers' own generating steps: a panic of the writer on a generated message must not take the driver down
/// (it is data for the properties about the writer, and no input at all for the others).  A serialised message is never empty, so an
/// empty result is the failure mark: writer-related modes record it (their relation then fails), the other modes skip the sample.
/// a minimal message without storage header and without optional fields (HTYP 0x20 / 0x21): 4..14 bytes plus a short payload
pub fn boundary_small(r: &mut Rng) -> Message {
    let with_ext = r.coin();
    let nd = r.below(6) as usize;
    let data = r.bytes(nd);
    Message {
        storage_header: None,
        header: StandardHeader { version: 1, endianness: if r.coin() { Endianness::Big } else { Endianness::Little }, has_extended_header: with_ext, message_counter: r.next() as u8,
                                 ecu_id: None, session_id: None, timestamp: None, payload_length: (4 + data.len()) as u16 },
        extended_header: if with_ext { Some(ExtendedHeader { verbose: false, argument_count: 0, message_type: MessageType::Log(LogLevel::Info), application_id: "A".into(), context_id: "C".into() }) } else { None },
        payload: PayloadContent::NonVerbose(r.next() as u32, data),
    }
}
pub fn ser(m: &Message) -> Vec<u8> {
    let m2 = m.clone();
    std::panic::catch_unwind(move || m2.as_bytes()).unwrap_or_default()
}
pub struct MsgOpts {
    pub storage: Option<bool>, // force presence / absence
    pub big: usize,            // size of the occasional large string / raw field
    pub max_args: usize,
}
impl Default for MsgOpts {
    fn default() -> Self {
        MsgOpts { storage: None, big: 40, max_args: 4 }
    }
}
/// a well-formed message; None if the random draw exceeded the 16-bit length field
pub fn try_message(r: &mut Rng, o: &MsgOpts) -> Option<Message> {
    let be = r.coin();
    let endianness = if be { Endianness::Big } else { Endianness::Little };
    let ext = r.below(6) != 0;
    let (payload, mt, verbose) = if !ext {
        let n = r.below(6) as usize;
        (PayloadContent::NonVerbose(r.next() as u32, r.bytes(n)), None, false)
    } else {
        match r.below(5) {
            0 | 1 => {
                let n = r.below(o.max_args as u64 + 1) as usize;
                (PayloadContent::Verbose((0..n).map(|_| argument(r, o.big)).collect()), Some(message_type(r, &[2])), true)
            }
            2 => {
                let n = if r.one_in(8) { r.below(o.big as u64 + 1) as usize } else { r.below(6) as usize };
                let mut d = r.bytes(n);
                if r.one_in(5) { d.extend(b"DLT\x01"); let k = r.below(5) as usize; d.extend(r.bytes(k)); }
                (PayloadContent::NonVerbose(r.next() as u32, d), Some(message_type(r, &[3])), false)
            }
            3 => {
                let n = r.below(6) as usize;
                let c = match r.below(3) {
                    0 => ControlType::Request,
                    1 => ControlType::Response,
                    _ => ControlType::Unknown(*r.pick(&[0u8, 3, 0x11, 255])),
                };
                (PayloadContent::ControlMsg(c, r.bytes(n)), Some(message_type(r, &[0, 1, 2, 4, 5, 6, 7])), false)
            }
            _ => {
                let n = r.below(o.max_args as u64 + 1) as usize;
                let slices = (0..n)
                    .map(|_| {
                        let k = if r.one_in(10) { r.below(o.big as u64 + 1) as usize } else { r.below(7) as usize };
                        r.bytes(k)
                    })
                    .collect();
                (PayloadContent::NetworkTrace(slices), Some(message_type(r, &[0, 1, 3, 4, 5, 6, 7])), true)
            }
        }
    };
    let plen = payload_len(&payload, endianness);
    let noar = match &payload {
        PayloadContent::Verbose(a) => a.len() as u8,
        PayloadContent::NetworkTrace(s) => s.len() as u8,
        _ => r.next() as u8, // free for non-verbose / control payloads
    };
    let ecu = if r.coin() { Some(id(r)) } else { None };
    let sid = if r.coin() { Some(r.next() as u32) } else { None };
    let tms = if r.coin() { Some(r.next() as u32) } else { None };
    let hdrs = 4 + 4 * (ecu.is_some() as usize + sid.is_some() as usize + tms.is_some() as usize) + if ext { 10 } else { 0 };
    if hdrs + plen > 65535 {
        return None;
    }
    let storage = match o.storage {
        Some(b) => b,
        None => r.coin(),
    };
    Some(Message {
        storage_header: if storage { Some(StorageHeader { timestamp: DltTimeStamp { seconds: r.next() as u32, microseconds: r.next() as u32 }, ecu_id: id(r) }) } else { None },
        header: StandardHeader { version: r.below(8) as u8, endianness, has_extended_header: ext, message_counter: r.next() as u8, ecu_id: ecu, session_id: sid, timestamp: tms, payload_length: plen as u16 },
        extended_header: mt.map(|mt| ExtendedHeader { verbose, argument_count: noar, message_type: mt, application_id: id(r), context_id: id(r) }),
        payload,
    })
}
pub fn message(r: &mut Rng, o: &MsgOpts) -> Message {
    loop {
        if let Some(m) = try_message(r, o) {
            return m;
        }
    }
}

/// well-formed messages at the edges of the format: total length exactly at / just below the 16-bit limit, 255 arguments or
/// slices, string / raw / name fields around 32 KiB and at the limit, empty payloads
/// messages around the one-byte / 15-bit limits of a length that are cheap enough to be sampled often: string, raw, name and unit
/// fields of 253..258, 300 and 1000 bytes (with and without variable info), control payloads with service ids above 15, ids with blanks
pub fn medium_message(r: &mut Rng, storage: Option<bool>) -> Message {
    let be = r.coin();
    let endianness = if be { Endianness::Big } else { Endianness::Little };
    let n = *r.pick(&[253usize, 254, 255, 256, 257, 258, 300, 1000]);
    let plain = |k: TypeInfoKind, v: Value| Argument { type_info: TypeInfo { kind: k, coding: StringCoding::UTF8, has_variable_info: false, has_trace_info: false }, name: None, unit: None, fixed_point: None, value: v };
    let u16arg = plain(TypeInfoKind::Unsigned(TypeLength::BitLength16), Value::U16(0x1234));
    let (payload, mt): (PayloadContent, MessageType) = match r.below(6) {
        0 => (PayloadContent::Verbose(vec![plain(TypeInfoKind::StringType, Value::StringVal("s".repeat(n))), u16arg]), MessageType::Log(LogLevel::Info)),
        1 => (PayloadContent::Verbose(vec![plain(TypeInfoKind::Raw, Value::Raw(r.bytes(n))), u16arg]), MessageType::Log(LogLevel::Warn)),
        2 => { let mut a = plain(TypeInfoKind::StringType, Value::StringVal("v".repeat(n))); a.type_info.has_variable_info = true; a.name = Some("nm".into());
               (PayloadContent::Verbose(vec![a, u16arg]), MessageType::Log(LogLevel::Error)) }
        3 => { let mut a = plain(TypeInfoKind::Signed(TypeLength::BitLength32), Value::I32(-7)); a.type_info.has_variable_info = true; a.name = Some("n".repeat(n)); a.unit = Some("u".repeat(*r.pick(&[0usize, 1, 254, 255, 256])));
               (PayloadContent::Verbose(vec![a, u16arg]), MessageType::Log(LogLevel::Debug)) }
        4 => (PayloadContent::NetworkTrace(vec![r.bytes(n), vec![], r.bytes(3)]), MessageType::NetworkTrace(NetworkTraceType::Can)),
        _ => { let t = *r.pick(&[0x10u8, 0x11, 0x13, 0x24, 0x80, 0xFF]); (PayloadContent::ControlMsg(ControlType::Unknown(t), r.bytes(n % 40)), MessageType::Control(ControlType::Response)) }
    };
    let plen = payload_len(&payload, endianness);
    let (verbose, noar) = match &payload { PayloadContent::Verbose(a) => (true, a.len() as u8), PayloadContent::NetworkTrace(s) => (true, s.len() as u8), _ => (false, 0) };
    let st = storage.unwrap_or_else(|| r.coin());
    Message {
        storage_header: if st { Some(StorageHeader { timestamp: DltTimeStamp { seconds: r.next() as u32, microseconds: r.next() as u32 }, ecu_id: id(r) }) } else { None },
        header: StandardHeader { version: 1, endianness, has_extended_header: true, message_counter: r.next() as u8, ecu_id: if r.coin() { Some(id(r)) } else { None }, session_id: None, timestamp: None, payload_length: plen as u16 },
        extended_header: Some(ExtendedHeader { verbose, argument_count: noar, message_type: mt, application_id: id(r), context_id: id(r) }),
        payload,
    }
}
/// bytes of a verbose message with one string (or raw) argument of n content bytes and a u16 argument, laid out by hand from the
/// format description (not through the crate's writer, so that a defect of the writer cannot hide from checks that start from bytes)
pub fn handmade_text_message(r: &mut Rng, n: usize, sh: bool) -> Vec<u8> {
    let be = r.coin();
    let raw = r.coin();
    let w16 = |x: u16| if be { x.to_be_bytes() } else { x.to_le_bytes() };
    let w32 = |x: u32| if be { x.to_be_bytes() } else { x.to_le_bytes() };
    // exactly n bytes of text without NUL: line breaks, tabs, other control characters, blanks and multi-byte characters included
    // (what an ECU really logs; the crate's own writer is not involved in laying it out)
    let text_bytes = |r: &mut Rng, n: usize| -> Vec<u8> {
        if r.one_in(3) { return vec![b'q'; n]; }
        let mut t = String::new();
        let mut tries = 0;
        while t.len() < n && tries < 64 { tries += 1; for ch in r.text(8).chars() { if t.len() + ch.len_utf8() <= n { t.push(ch); } } }
        if n >= 2 && r.one_in(3) { t.truncate(t.char_indices().map(|(i, _)| i).filter(|i| *i <= n - 2).last().unwrap_or(0)); t.push_str(*r.pick(&["\r\n", "\n", "\t", " "])); }
        let mut v = t.into_bytes();
        while v.len() < n { v.push(b'q'); }
        v.truncate(n);
        v
    };
    // variable info: names (and a unit) with blanks, tabs, line breaks, leading / trailing blanks
    let vari = r.one_in(3);
    let name: &str = *r.pick(&["engine speed", "last error", "a\tb", "x\ny", " lead", "trail ", "nm", "", "door open "]);
    let mut p: Vec<u8> = vec![];
    if raw {
        p.extend(w32(0x0000_0400 | if vari { 0x800 } else { 0 }));     // RAWD
        p.extend(w16(n as u16));
        if vari { p.extend(w16(name.len() as u16 + 1)); p.extend(name.as_bytes()); p.push(0); }
        p.extend(r.bytes(n));
    } else {
        p.extend(w32(0x0000_0200 | (1 << 15) | if vari { 0x800 } else { 0 }));   // STRG, UTF-8
        p.extend(w16((n + 1) as u16));
        if vari { p.extend(w16(name.len() as u16 + 1)); p.extend(name.as_bytes()); p.push(0); }
        p.extend(text_bytes(r, n));
        p.push(0);
    }
    if vari {
        let unit: &str = *r.pick(&["rpm", "km / h", "", "m\ts"]);
        p.extend(w32(0x0000_0042 | 0x800));                   // UINT 16 bit with name and unit
        p.extend(w16(name.len() as u16 + 1)); p.extend(w16(unit.len() as u16 + 1));
        p.extend(name.as_bytes()); p.push(0); p.extend(unit.as_bytes()); p.push(0);
        p.extend(w16(0xBEEF));
    } else {
        p.extend(w32(0x0000_0042));                       // UINT 16 bit
        p.extend(w16(0xBEEF));
    }
    let mut b: Vec<u8> = vec![];
    // storage time: random, or 0 s 0 us (no reception clock), or 0 s with microseconds
    if sh { b.extend(b"DLT\x01"); let (a, c) = match r.below(4) { 0 => (0u32, 0u32), 1 => (0, r.next() as u32), _ => (r.next() as u32, r.next() as u32) }; b.extend(a.to_le_bytes()); b.extend(c.to_le_bytes()); b.extend(b"ECU9"); }
    let total = 4 + 10 + p.len();
    b.extend([0x21 | if be { 2 } else { 0 }, r.next() as u8, (total >> 8) as u8, total as u8]);
    b.extend([0x41, 2]);                                  // verbose log info, two arguments
    b.extend(b"APP\0CTX\0");
    b.extend(p);
    b
}
/// bytes of a verbose message with a 32-bit and a 64-bit float argument given by their bit patterns (signalling and quiet NaNs with
/// payload, infinities, negative zero, subnormals), laid out by hand
pub fn handmade_float_message(r: &mut Rng, sh: bool) -> Vec<u8> {
    let be = r.coin();
    let w32 = |x: u32| if be { x.to_be_bytes() } else { x.to_le_bytes() };
    let w64 = |x: u64| if be { x.to_be_bytes() } else { x.to_le_bytes() };
    let f32s = [0x7F80_0001u32, 0x7FA0_0000, 0xFFA5_A5A5, 0x7FC0_0000, 0x7FC1_2345, 0xFFFF_FFFF, 0x7F80_0000, 0xFF80_0000, 0x8000_0000, 0x0000_0001, 0x807F_FFFF, 0x3F80_0000];
    let f64s = [0x7FF0_0000_0000_0001u64, 0x7FF4_0000_0000_0000, 0xFFF5_A5A5_A5A5_A5A5, 0x7FF8_0000_0000_0000, 0xFFFF_FFFF_FFFF_FFFF, 0x7FF0_0000_0000_0000, 0x8000_0000_0000_0000, 0x0000_0000_0000_0001, 0x3FF0_0000_0000_0000];
    let mut p: Vec<u8> = vec![];
    p.extend(w32(0x0000_0083));                           // FLOA 32 bit
    p.extend(w32(*r.pick(&f32s)));
    p.extend(w32(0x0000_0084));                           // FLOA 64 bit
    p.extend(w64(*r.pick(&f64s)));
    let mut b: Vec<u8> = vec![];
    if sh { b.extend(b"DLT\x01"); b.extend((r.next() as u32).to_le_bytes()); b.extend((r.next() as u32).to_le_bytes()); b.extend(b"ECU9"); }
    let total = 4 + 10 + p.len();
    b.extend([0x21 | if be { 2 } else { 0 }, r.next() as u8, (total >> 8) as u8, total as u8]);
    b.extend([0x41, 2]);
    b.extend(b"APP\0CTX\0");
    b.extend(p);
    b
}
pub fn boundary_message(r: &mut Rng, storage: Option<bool>) -> Message {
    let be = r.coin();
    let endianness = if be { Endianness::Big } else { Endianness::Little };
    let ecu = if r.coin() { Some(id(r)) } else { None };
    let sid = if r.coin() { Some(r.next() as u32) } else { None };
    let tms = if r.coin() { Some(r.next() as u32) } else { None };
    let std = 4 + 4 * (ecu.is_some() as usize + sid.is_some() as usize + tms.is_some() as usize);
    let plain = |k: TypeInfoKind, v: Value| Argument { type_info: TypeInfo { kind: k, coding: StringCoding::UTF8, has_variable_info: false, has_trace_info: false }, name: None, unit: None, fixed_point: None, value: v };
    let room = 65535 - std - 10; // payload bytes available with an extended header
    let shape = r.below(11);
    let (payload, mt, ext): (PayloadContent, MessageType, bool) = match shape {
        0 => { let slack = *r.pick(&[0usize, 1, 2, 7]); (PayloadContent::Verbose(vec![plain(TypeInfoKind::Raw, Value::Raw(r.bytes(room - 6 - slack)))]), MessageType::Log(LogLevel::Info), true) }
        1 => { let slack = *r.pick(&[0usize, 1, 3]); (PayloadContent::Verbose(vec![plain(TypeInfoKind::StringType, Value::StringVal("x".repeat(room - 7 - slack)))]), MessageType::Log(LogLevel::Debug), true) }
        2 => (PayloadContent::Verbose((0..255).map(|i| plain(TypeInfoKind::Bool, Value::Bool(i as u8))).collect()), MessageType::ApplicationTrace(ApplicationTraceType::State), true),
        3 => (PayloadContent::NetworkTrace((0..255).map(|i| vec![i as u8; (i % 3) as usize]).collect()), MessageType::NetworkTrace(NetworkTraceType::Ethernet), true),
        4 => { let n = *r.pick(&[32766usize, 32767, 32768, 32769]); (PayloadContent::Verbose(vec![plain(TypeInfoKind::StringType, Value::StringVal("é".repeat(n / 2))), plain(TypeInfoKind::Raw, Value::Raw(r.bytes(n - 10000)))]), MessageType::Log(LogLevel::Warn), true) }
        5 => { let slack = *r.pick(&[0usize, 1]); (PayloadContent::NonVerbose(r.next() as u32, r.bytes(65535 - std - 4 - slack)), MessageType::Log(LogLevel::Info), false) }
        8 => { let mut a = plain(TypeInfoKind::Float(FloatWidth::Width64), Value::F64(-0.0)); a.type_info.has_variable_info = true; a.name = Some("t".into()); a.unit = Some("u".repeat(*r.pick(&[32766usize, 32767, 32768, 40000])));
               (PayloadContent::Verbose(vec![a]), MessageType::Log(LogLevel::Info), true) }
        9 | 10 => {
            // a message whose own first four bytes spell a storage-header ("DLT\x01") or serial-header ("DLS\x01") pattern:
            // HTYP 0x44 (version 2, little endian, ECU id), MCNT 0x4C, LEN 0x5401 / 0x5301; no extended header
            let len = if shape == 9 { 0x5401usize } else { 0x5301 };
            return Message {
                storage_header: if storage.unwrap_or(false) { Some(StorageHeader { timestamp: DltTimeStamp { seconds: 1, microseconds: 2 }, ecu_id: id(r) }) } else { None },
                header: StandardHeader { version: 2, endianness: Endianness::Little, has_extended_header: false, message_counter: 0x4C, ecu_id: Some(id(r)), session_id: None, timestamp: None, payload_length: (len - 8) as u16 },
                extended_header: None,
                payload: PayloadContent::NonVerbose(r.next() as u32, r.bytes(len - 8 - 4)),
            };
        }
        6 => { let mut a = plain(TypeInfoKind::Unsigned(TypeLength::BitLength128), Value::U128(u128::MAX - 5)); a.type_info.has_variable_info = true; a.name = Some("n".repeat(*r.pick(&[254usize, 255, 256, 32767]))); a.unit = Some(String::new());
               (PayloadContent::Verbose(vec![a]), MessageType::Log(LogLevel::Verbose), true) }
        _ => { let slack = *r.pick(&[0usize, 1, 100]); (PayloadContent::ControlMsg(ControlType::Response, r.bytes(room - 1 - slack)), MessageType::Control(ControlType::Response), true) }
    };
    let plen = payload_len(&payload, endianness);
    let (verbose, noar) = match &payload { PayloadContent::Verbose(a) => (true, a.len() as u8), PayloadContent::NetworkTrace(s) => (true, s.len() as u8), _ => (false, 0) };
    let st = storage.unwrap_or_else(|| r.coin());
    Message {
        storage_header: if st { Some(StorageHeader { timestamp: DltTimeStamp { seconds: r.next() as u32, microseconds: r.next() as u32 }, ecu_id: id(r) }) } else { None },
        header: StandardHeader { version: 1, endianness, has_extended_header: ext, message_counter: r.next() as u8, ecu_id: ecu, session_id: sid, timestamp: tms, payload_length: plen as u16 },
        extended_header: if ext { Some(ExtendedHeader { verbose, argument_count: noar, message_type: mt, application_id: id(r), context_id: id(r) }) } else { None },
        payload,
    }
}

/// one byte-level mutation of a serialised message (`sh`: it carries a storage header)
pub fn mutate(r: &mut Rng, b: &[u8], sh: bool) -> Vec<u8> {
    let mut x = b.to_vec();
    let o = if sh { 16 } else { 0 };
    match r.below(12) {
        0 => {
            if !x.is_empty() {
                let i = r.below(x.len() as u64) as usize;
                x[i] ^= 1 << r.below(8);
            }
        }
        1 => {
            if !x.is_empty() {
                let i = r.below(x.len() as u64) as usize;
                x[i] = r.next() as u8;
            }
        }
        2 => {
            let cut = r.below(x.len() as u64 + 1) as usize;
            x.truncate(cut);
        }
        3 => {
            // length field
            if x.len() > o + 3 {
                let real = (b.len() - o) as u16;
                let l = *r.pick(&[0u16, 1, 3, 4, 7, 8, 13, 14, 15, real.wrapping_sub(1), real.wrapping_add(1), real.wrapping_sub(4), real.wrapping_add(10), 65535]);
                x[o + 2] = (l >> 8) as u8;
                x[o + 3] = l as u8;
            }
        }
        4 => {
            for _ in 0..3 {
                if !x.is_empty() {
                    let i = r.below(x.len() as u64) as usize;
                    x[i] ^= 1 << r.below(8);
                }
            }
        }
        5 => {
            // header type byte
            if x.len() > o {
                x[o] ^= 1 << r.below(8);
            }
        }
        6 => {
            // within the first bytes after the standard header: MSIN / NOAR / type info
            if x.len() > o + 4 {
                let span = (x.len() - o - 4).min(24);
                let i = o + 4 + r.below(span as u64) as usize;
                x[i] ^= 1 << r.below(8);
            }
        }
        7 => {
            // flip a bit and extend with trailing bytes
            if !x.is_empty() {
                let i = r.below(x.len() as u64) as usize;
                x[i] ^= 1 << r.below(8);
            }
            let k = r.below(20) as usize;
            x.extend(r.bytes(k));
        }
        8 => {
            // zero a 16-bit window
            if x.len() >= 2 {
                let i = r.below(x.len() as u64 - 1) as usize;
                x[i] = 0;
                x[i + 1] = 0;
            }
        }
        9 => {
            // 0xFF a 16-bit window
            if x.len() >= 2 {
                let i = r.below(x.len() as u64 - 1) as usize;
                x[i] = 0xff;
                x[i + 1] = 0xff;
            }
        }
        10 => {
            // delete or insert a byte
            if !x.is_empty() {
                let i = r.below(x.len() as u64) as usize;
                if r.coin() {
                    x.remove(i);
                } else {
                    x.insert(i, r.next() as u8);
                }
            }
        }
        _ => {
            let n = r.below(48) as usize;
            x = r.bytes(n);
        }
    }
    x
}
