//! Recorder for the slice-level API (direction B): drives the real functions, one NDJSON event per
//! public call (arguments + projected result, or panic).  Validated by spec/trace/TraceSlice.tla.
use crate::gen::{self, MsgOpts};
use crate::proj;
use crate::rng::Rng;
use crate::Out;
use dlt_core::dlt::*;
use dlt_core::filtering::{DltFilterConfig, ProcessedDltFilterConfig};
use dlt_core::parse::*;
use serde_json::{json, Value as J};
use std::panic::{catch_unwind, AssertUnwindSafe};

/// DltFilterConfig -> ProcessedDltFilterConfig under catch_unwind (`borrowed`: which of the two conversions)
pub fn conv(cfg: &DltFilterConfig, borrowed: bool) -> Result<ProcessedDltFilterConfig, ()> {
    let c = cfg.clone();
    catch_unwind(move || -> ProcessedDltFilterConfig { if borrowed { (&c).into() } else { c.into() } }).map_err(|_| ())
}
pub fn conv_opt(cfg: Option<&DltFilterConfig>) -> Result<Option<ProcessedDltFilterConfig>, ()> {
    match cfg { None => Ok(None), Some(c) => conv(c, true).map(Some) }
}
pub fn convpanic(cfg: Option<&DltFilterConfig>) -> J { json!({"op": "convpanic", "flt": proj::opt(&cfg, |c| proj::filter_config(c)), "res": {"v": "panic"}}) }
pub fn parse_res(buf: &[u8], flt: Option<&ProcessedDltFilterConfig>, sh: bool, with_rest: bool) -> J {
    let r = catch_unwind(AssertUnwindSafe(|| dlt_message(buf, flt, sh)));
    // the remainder of a successful call must BE the input's suffix (same memory), not merely have a plausible length
    if let Ok(Ok((rest, _))) = &r {
        if !is_suffix(buf, rest) { return json!({"v": "misaligned", "consumed": 0, "n": 0}); }
    }
    proj::parse_result(buf.len(), &r, with_rest)
}
/// `rest` is the tail of `buf` (by address and length)
pub fn is_suffix(buf: &[u8], rest: &[u8]) -> bool {
    rest.len() <= buf.len() && std::ptr::eq(rest.as_ptr(), buf[buf.len() - rest.len()..].as_ptr())
}
/// C03 only: a filter built directly (public fields), with a minimum level the conversions never produce
pub fn parse_event_direct(buf: &[u8], cfg: &DltFilterConfig, invalid_level: u8, sh: bool) -> J {
    let mut processed: ProcessedDltFilterConfig = match conv(cfg, true) { Ok(p) => p, Err(()) => return convpanic(Some(cfg)) };
    processed.min_log_level = Some(LogLevel::Invalid(invalid_level));
    json!({"op": "parse", "buf": proj::bytes(buf), "sh": sh, "flt": [proj::filter_config(cfg)], "direct": invalid_level,
           "res": parse_res(buf, Some(&processed), sh, false)})
}
pub fn parse_event(buf: &[u8], cfg: Option<&DltFilterConfig>, sh: bool) -> J {
    let processed: Option<ProcessedDltFilterConfig> = match conv_opt(cfg) { Ok(p) => p, Err(()) => return convpanic(cfg) };
    json!({"op": "parse", "buf": proj::bytes(buf), "sh": sh, "flt": proj::opt(&cfg, |c| proj::filter_config(c)),
           "res": parse_res(buf, processed.as_ref(), sh, false)})
}
pub fn consume_res(buf: &[u8]) -> J {
    match catch_unwind(AssertUnwindSafe(|| dlt_consume_msg(buf))) {
        Err(_) => json!({"v": "panic"}),
        // the remainder must be the input's suffix behind the reported count (none: the whole input): otherwise its own class
        Ok(Ok((rest, Some(n)))) => if is_suffix(buf, rest) && n as usize + rest.len() == buf.len() { json!({"v": "skipped", "consumed": n, "rest_len": rest.len()}) } else { json!({"v": "misaligned", "consumed": n, "rest_len": rest.len()}) },
        Ok(Ok((rest, None))) => if is_suffix(buf, rest) && rest.len() == buf.len() { json!({"v": "none", "rest_len": rest.len()}) } else { json!({"v": "misaligned", "consumed": 0, "rest_len": rest.len()}) },
        Ok(Err(DltParseError::IncompleteParse { needed })) => json!({"v": "inc", "hint": match needed { Some(n) => json!([n.get()]), None => json!([]) }}),
        Ok(Err(_)) => json!({"v": "rej"}),
    }
}
pub fn consume_event(buf: &[u8]) -> J {
    let mut res = consume_res(buf);
    // the remainder must be the suffix after `consumed` bytes: a disagreement is logged as its own class
    if res["v"] == "skipped" && res["consumed"].as_u64().unwrap() as usize + res["rest_len"].as_u64().unwrap() as usize != buf.len() {
        res["v"] = json!("misaligned");
    }
    if res["v"] == "none" && res["rest_len"].as_u64().unwrap() as usize != buf.len() {
        res["v"] = json!("misaligned");
    }
    json!({"op": "consume", "buf": proj::bytes(buf), "res": res})
}
pub fn skip_event(buf: &[u8]) -> J {
    let res = match catch_unwind(AssertUnwindSafe(|| skip_storage_header(buf))) {
        Err(_) => json!({"v": "panic"}),
        Ok(Ok((rest, n))) => {
            if rest.len() + n as usize == buf.len() && rest == &buf[n as usize..] { json!({"v": "skipped", "consumed": n}) } else { json!({"v": "misaligned"}) }
        }
        Ok(Err(DltParseError::IncompleteParse { .. })) => json!({"v": "inc"}),
        Ok(Err(_)) => json!({"v": "rej"}),
    };
    json!({"op": "skip", "buf": proj::bytes(buf), "res": res})
}
pub fn forward_event(buf: &[u8]) -> J {
    let res = match catch_unwind(AssertUnwindSafe(|| forward_to_next_storage_header(buf))) {
        Err(_) => json!({"v": "panic"}),
        Ok(None) => json!({"v": "none"}),
        Ok(Some((d, rest))) => {
            if (d as usize) <= buf.len() && rest == &buf[d as usize..] { json!({"v": "found", "dropped": d}) } else { json!({"v": "misaligned"}) }
        }
    };
    json!({"op": "forward", "buf": proj::bytes(buf), "res": res})
}
pub fn zstr_event(buf: &[u8], size: usize) -> J {
    let res = match catch_unwind(AssertUnwindSafe(|| dlt_zero_terminated_string(buf, size))) {
        Err(_) => json!({"v": "panic"}),
        Ok(Ok((rest, s))) => {
            let consumed = buf.len() - rest.len();
            if rest == &buf[consumed..] { json!({"v": "ok", "val": proj::str_bytes(s), "consumed": consumed}) } else { json!({"v": "misaligned"}) }
        }
        Ok(Err(DltParseError::IncompleteParse { needed })) => json!({"v": "inc", "hint": match needed { Some(n) => json!([n.get()]), None => json!([]) }}),
        Ok(Err(_)) => json!({"v": "rej"}),
    };
    json!({"op": "zstr", "buf": proj::bytes(buf), "size": size, "res": res})
}
pub fn construct_event(be: bool, types: &[TypeInfo], data: &[u8]) -> J {
    let e = if be { Endianness::Big } else { Endianness::Little };
    let res = match catch_unwind(AssertUnwindSafe(|| construct_arguments(e, types, data))) {
        Err(_) => json!({"v": "panic"}),
        Ok(Ok(args)) => json!({"v": "ok", "args": args.iter().map(proj::argument).collect::<Vec<_>>()}),
        Ok(Err(_)) => json!({"v": "err"}),
    };
    json!({"op": "construct", "be": be, "types": types.iter().map(proj::type_info).collect::<Vec<_>>(), "data": proj::bytes(data), "res": res})
}
/// re-serialise and measure a message value (C03, C15): as_bytes, byte_len, Argument::{len, valid, as_bytes} in both orders
pub fn reser_event(m: &Message, parsed: bool) -> J {
    let res = match catch_unwind(AssertUnwindSafe(|| {
        let b = m.as_bytes();
        let blen = m.byte_len();
        let args: Vec<&Argument> = match &m.payload {
            PayloadContent::Verbose(a) => a.iter().collect(),
            _ => vec![],
        };
        let alen: Vec<usize> = args.iter().map(|a| a.len()).collect();
        let avalid: Vec<bool> = args.iter().map(|a| a.valid()).collect();
        let abe: Vec<usize> = args.iter().map(|a| a.as_bytes::<byteorder::BigEndian>().len()).collect();
        let ale: Vec<usize> = args.iter().map(|a| a.as_bytes::<byteorder::LittleEndian>().len()).collect();
        json!({"v": "ok", "bytes": proj::bytes(&b), "blen": blen, "alen": alen, "avalid": avalid, "abe": abe, "ale": ale})
    })) {
        Ok(j) => j,
        Err(_) => json!({"v": "panic"}),
    };
    json!({"op": "reser", "m": proj::message(m), "parsed": parsed, "res": res})
}
/// the C16 chain for one parser result
pub fn stable_event(m: &Message, sh: bool) -> J {
    match catch_unwind(AssertUnwindSafe(|| {
        let b2 = m.as_bytes();
        let res2 = parse_res(&b2, None, sh, false);
        let b3 = match dlt_message(&b2, None, sh) {
            Ok((_, ParsedMessage::Item(m2))) => m2.as_bytes(),
            _ => vec![],
        };
        json!({"op": "stable", "sh": sh, "m": proj::message(m), "b2": proj::bytes(&b2), "res2": res2, "b3": proj::bytes(&b3)})
    })) {
        Ok(j) => j,
        Err(_) => json!({"op": "stable", "sh": sh, "m": proj::message(m), "b2": [], "res2": {"v": "panic"}, "b3": []}),
    }
}
/// what C04 looks at: class, consumed bytes, reported payload length
fn frame_res(res: &J) -> J {
    let v = res["v"].as_str().unwrap().to_string();
    let consumed = res.get("consumed").and_then(|c| c.as_u64()).unwrap_or(0);
    let n = if v == "filtered" { res["n"].as_u64().unwrap_or(0) } else if v == "msg" { res["m"]["h"]["plen"].as_u64().unwrap_or(0) } else { 0 };
    json!({"v": v, "consumed": consumed, "n": n})
}
pub fn frame_event(buf: &[u8], cfg: Option<&DltFilterConfig>, sh: bool, api: &str) -> J {
    let processed: Option<ProcessedDltFilterConfig> = match conv_opt(cfg) { Ok(p) => p, Err(()) => return convpanic(cfg) };
    let res = if api == "parse" { parse_res(buf, processed.as_ref(), sh, false) } else { consume_res(buf) };
    json!({"op": "frame", "api": api, "buf": proj::bytes(buf), "sh": sh, "flt": proj::opt(&cfg, |c| proj::filter_config(c)), "res": frame_res(&res)})
}
/// C03: the same calls, logged with their outcome class only
fn nopanic(mut e: J) -> J {
    let api = e["op"].clone();
    let v = e["res"]["v"].clone();
    e["api"] = api;
    e["op"] = json!("nopanic");
    e["res"] = json!({"v": v});
    e
}
pub fn filter_event(buf: &[u8], cfg: &DltFilterConfig, sh: bool, borrowed: bool) -> J {
    let processed: ProcessedDltFilterConfig = match conv(cfg, borrowed) { Ok(p) => p, Err(()) => return convpanic(Some(cfg)) };
    json!({"op": "filter", "buf": proj::bytes(buf), "sh": sh, "flt": [proj::filter_config(cfg)],
           "res": parse_res(buf, Some(&processed), sh, false), "res0": parse_res(buf, None, sh, false)})
}
pub fn junkparse_event(junk: &[u8], msg: &[u8], sfx: &[u8], cfg: Option<&DltFilterConfig>) -> J {
    let processed: Option<ProcessedDltFilterConfig> = match conv_opt(cfg) { Ok(p) => p, Err(()) => return convpanic(cfg) };
    let mut with = junk.to_vec();
    with.extend(msg);
    with.extend(sfx);
    let mut without = msg.to_vec();
    without.extend(sfx);
    json!({"op": "junkparse", "junk": proj::bytes(junk), "msg": proj::bytes(msg), "sfx": proj::bytes(sfx), "flt": proj::opt(&cfg, |c| proj::filter_config(c)),
           "a": parse_res(&with, processed.as_ref(), true, false), "b": parse_res(&without, processed.as_ref(), true, false)})
}
pub fn prefixes_event(b: &[u8], sh: bool, ks: &[usize], calls: &mut u64) -> J {
    prefixes_event_f(b, sh, ks, calls, None)
}
/// `cfg`: additionally every cut is parsed with this filter (it may or may not reject the message): still incomplete
pub fn prefixes_event_f(b: &[u8], sh: bool, ks: &[usize], calls: &mut u64, cfg: Option<&DltFilterConfig>) -> J {
    let cuts: Vec<J> = ks.iter().map(|k| { *calls += 1; parse_res(&b[..*k], None, sh, false) }).collect();
    let ccuts: Vec<J> = if sh { ks.iter().map(|k| { *calls += 1; consume_res(&b[..*k]) }).collect() } else { vec![] };
    let processed: Option<ProcessedDltFilterConfig> = match conv_opt(cfg) { Ok(p) => p, Err(()) => return convpanic(cfg) };
    let fcuts: Vec<J> = match &processed { Some(p) => ks.iter().map(|k| { *calls += 1; parse_res(&b[..*k], Some(p), sh, false) }).collect(), None => vec![] };
    json!({"op": "prefixes", "full": proj::bytes(b), "sh": sh, "ks": ks, "cuts": cuts, "ccuts": ccuts, "flt": proj::opt(&cfg, |c| proj::filter_config(c)), "fcuts": fcuts})
}
fn item_of(buf: &[u8], sh: bool) -> Option<Message> {
    match catch_unwind(AssertUnwindSafe(|| dlt_message(buf, None, sh))) {
        Ok(Ok((_, ParsedMessage::Item(m)))) => Some(m),
        _ => None,
    }
}

// ------------------------------------------------------------------------------------------------
pub fn random_filter(r: &mut Rng, m: Option<&Message>) -> DltFilterConfig {
    // ids drawn from the message itself (so that "allowed" cases occur) and from a small pool
    let mut pool: Vec<String> = vec!["".into(), "a".into(), "APP".into(), "ECU".into(), "é".into(), "ZZZZ".into(), "APP12".into(), "DIAGNOSTICS".into(), "APP ".into()];
    if let Some(m) = m {
        if let Some(x) = &m.extended_header {
            pool.push(x.application_id.clone());
            pool.push(x.context_id.clone());
            // ids that differ from the message's only in letter case
            pool.push(x.application_id.to_lowercase());
            pool.push(x.application_id.to_uppercase());
            pool.push(x.context_id.to_lowercase());
            pool.push(x.context_id.to_uppercase());
        }
        if let Some(e) = &m.header.ecu_id {
            pool.push(e.clone());
        }
    }
    let ids = |r: &mut Rng| -> Option<Vec<String>> {
        if r.below(3) == 0 {
            None
        } else {
            let n = r.below(4) as usize;
            Some((0..n).map(|_| r.pick(&pool).clone()).collect())
        }
    };
    let app_ids = ids(r);
    let context_ids = ids(r);
    let ecu_ids = ids(r);
    let min_log_level = match r.below(4) {
        0 => None,
        1 => Some(r.below(256) as u8),
        _ => Some(r.below(8) as u8),
    };
    let count = |r: &mut Rng| if r.one_in(12) { *r.pick(&[i64::MIN, i64::MIN + 1, i64::MAX, -1000, 1 << 40]) } else { r.below(5) as i64 - 1 };
    let app_id_count = count(r);
    let context_id_count = count(r);
    DltFilterConfig { min_log_level, app_ids, ecu_ids, context_ids, app_id_count, context_id_count }
}

fn suffixes(r: &mut Rng, sh: bool) -> Vec<Vec<u8>> {
    let next = {
        let m = gen::message(r, &MsgOpts { storage: Some(sh), ..Default::default() });
        gen::ser(&m)
    };
    let k = r.below(12) as usize;
    vec![vec![], vec![0], b"DLT\x01".to_vec(), vec![0x10, 0, 0, 0, 1], vec![0, 2, 0, 0, 2, 0, 65, 66], r.bytes(k), next]
}

pub fn record(mode: &str, seed: u64, n: usize, out: &mut Out) {
    let mut r = Rng::new(seed);
    match mode {
        // C01: serialise-then-parse with trailing byte strings
        "round" => {
            for i in 0..n {
                let big = if i % 50 == 49 { 3000 } else if i % 10 == 9 { 300 } else { 30 };
                let max_args = if i % 97 == 96 { 255 } else if i % 7 == 6 { 12 } else { 4 };
                let m = if i % 60 == 31 { gen::boundary_message(&mut r, None) } else if i % 12 == 5 { gen::medium_message(&mut r, None) } else { gen::message(&mut r, &MsgOpts { storage: None, big, max_args }) };
                let sh = m.storage_header.is_some();
                let b = gen::ser(&m);
                let mut sfx = suffixes(&mut r, sh);
                if b.len() > 20000 { sfx.truncate(3); }
                if i % 40 == 7 {
                    // trailing data that brings the buffer to a multiple of 64 KiB (+-1) and beyond
                    let o = if sh { 16 } else { 0 };
                    for total in [65535usize, 65536, 65537, 65536 + o, 65536 + o + 1, 2 * 65536 + o, 2 * 65536 + o + b.len() - 1 - o, 70000] {
                        if total > b.len() { sfx.push(r.bytes(total - b.len())); }
                    }
                }
                let res: Vec<J> = sfx.iter().map(|s| { let mut x = b.clone(); x.extend(s); out.calls += 1; parse_res(&x, None, sh, true) }).collect();
                out.emit(json!({"op": "round", "m": proj::message(&m), "bytes": proj::bytes(&b), "sfx": sfx.iter().map(|s| proj::bytes(s)).collect::<Vec<_>>(), "res": res}), b.len() > 4);
            }
        }
        // C02: writer = reference encoder; parser = reference decoder on canonical, dialect, mutated, arbitrary bytes
        "mut" => {
            for i in 0..n {
                let big = if i % 40 == 39 { 1000 } else { 24 };
                let m = if i % 150 == 77 { gen::boundary_message(&mut r, None) } else if i % 12 == 5 { gen::medium_message(&mut r, None) } else { gen::message(&mut r, &MsgOpts { storage: None, big, max_args: 3 }) };
                let sh = m.storage_header.is_some();
                let b = gen::ser(&m);
                out.emit(json!({"op": "enc", "m": proj::message(&m), "bytes": proj::bytes(&b)}), true);
                if b.len() > 20000 {
                    out.calls += 1;
                    out.emit(parse_event(&b, None, sh), true);
                    continue;
                }
                if i % 100 == 3 && !b.is_empty() {
                    // the message at the head of a buffer of 64 KiB and more: total length congruent to 0, 1, len - 1 modulo 65536
                    for rem in [0usize, 1, b.len() - 1] {
                        let total = 65536 * (1 + r.below(2) as usize) + rem;
                        let mut x = b.clone();
                        let fill = *r.pick(&[0u8, 0x20, 0xFF]);
                        x.resize(total, fill);
                        out.calls += 1;
                        out.emit(parse_event(&x, None, sh), true);
                    }
                }
                for _ in 0..3 {
                    let mut x = gen::mutate(&mut r, &b, sh);
                    if r.one_in(4) { x = gen::mutate(&mut r, &x, sh); }
                    out.calls += 2;
                    out.emit(parse_event(&x, None, sh), x.len() >= 4);
                    out.emit(parse_event(&x, None, !sh), x.len() >= 4);
                }
                for d in dialect(&mut r) {
                    out.calls += 1;
                    out.emit(parse_event(&d.0, None, d.1), true);
                }
                if sh && i % 3 == 0 {
                    // junk in front of the storage header and a cut at / around every guard of the decoder
                    let junk: Vec<u8> = (0..1 + r.below(20)).map(|_| *r.pick(&[b'X', 0u8, b'D', b'L', 7u8])).collect();
                    let htyp = b[16];
                    let std = 4 + 4 * ((htyp >> 2 & 1) + (htyp >> 3 & 1) + (htyp >> 4 & 1)) as usize;
                    let hdrs = std + if htyp & 1 == 1 { 10 } else { 0 };
                    for cut in [12usize, 15, 16, 19, 20, 16 + std - 1, 16 + std, 16 + hdrs - 1, 16 + hdrs, 16 + hdrs + 1, 16 + hdrs + 3, 16 + hdrs + 4, b.len() - 1] {
                        if cut <= b.len() {
                            let mut x = junk.clone();
                            x.extend(&b[..cut]);
                            out.calls += 1;
                            out.emit(parse_event(&x, None, true), true);
                        }
                    }
                }
            }
        }
        // C03: every entry point on hostile input; every returned message is re-serialised and measured
        "hostile" => {
            out.keep_convpanic = true;
            for i in 0..n {
                let big = if i % 10 == 9 { 70000 } else if i % 5 == 4 { 2000 } else { 24 };
                let inputs = hostile_inputs(&mut r, big);
                for (x, sh) in inputs {
                    let cfg = if r.coin() { Some(random_filter(&mut r, None)) } else { None };
                    out.calls += 2;
                    out.emit(nopanic(parse_event(&x, cfg.as_ref(), sh)), x.len() >= 4);
                    if let (Some(c), true) = (cfg.as_ref(), r.one_in(3)) {
                        out.calls += 1;
                        let lvl = *r.pick(&[0u8, 7, 9, 15, 200]);
                        out.emit(nopanic(parse_event_direct(&x, c, lvl, sh)), x.len() >= 4);
                    }
                    if let Some(m) = item_of(&x, sh) {
                        out.calls += 4;
                        let mut e = reser_event(&m, true);
                        e["op"] = json!("reser3");
                        out.emit(e, true);
                    }
                    out.emit(nopanic(consume_event(&x)), x.len() >= 4);
                    if x.len() > 5000 {
                        // large inputs (> 64 KiB among them): every remaining entry point too; the event keeps the whole input only when
                        // the outcome is a panic (trace size), otherwise its first bytes and its length
                        let slim = |mut e: J| -> J {
                            if e["res"]["v"] != "panic" {
                                if let Some(b) = e.get("buf").and_then(|b| b.as_array()).map(|b| b.len()) { let head: Vec<J> = e["buf"].as_array().unwrap()[..32.min(b)].to_vec(); e["buf_len"] = json!(b); e["buf"] = J::Array(head); }
                                if let Some(d) = e.get("data").and_then(|b| b.as_array()).map(|b| b.len()) { let head: Vec<J> = e["data"].as_array().unwrap()[..32.min(d)].to_vec(); e["data_len"] = json!(d); e["data"] = J::Array(head); }
                            }
                            e
                        };
                        out.calls += 4;
                        out.emit(slim(nopanic(skip_event(&x))), true);
                        out.emit(slim(nopanic(forward_event(&x))), true);
                        let size = *r.pick(&[65535usize, 65534, 4, x.len().min(65535), 0]);
                        out.emit(slim(nopanic(zstr_event(&x, size))), true);
                        // construction over the whole input: a few fixed-size fields, then a string / raw field whose length prefix is whatever stands there
                        let types: Vec<TypeInfo> = [TypeInfoKind::Unsigned(TypeLength::BitLength32), TypeInfoKind::StringType, TypeInfoKind::Raw, TypeInfoKind::Signed(TypeLength::BitLength128), TypeInfoKind::Raw]
                            .iter().map(|k| TypeInfo { kind: k.clone(), coding: StringCoding::UTF8, has_variable_info: false, has_trace_info: false }).collect();
                        out.emit(slim(nopanic(construct_event(r.coin(), &types, &x))), true);
                        continue;
                    }
                    out.calls += 4;
                    out.emit(nopanic(skip_event(&x)), !x.is_empty());
                    out.emit(nopanic(forward_event(&x)), !x.is_empty());
                    let size = match r.below(4) { 0 => r.below(8) as usize, 1 => x.len(), 2 => x.len() + 1, _ => r.below(70000) as usize };
                    out.emit(nopanic(zstr_event(&x, size)), !x.is_empty());
                    // non-verbose construction on the same bytes
                    let nt = r.below(6) as usize;
                    let types: Vec<TypeInfo> = (0..nt).map(|_| TypeInfo { kind: gen::kind(&mut r), coding: gen::coding(&mut r), has_variable_info: r.coin(), has_trace_info: r.coin() }).collect();
                    let cut = r.below(x.len() as u64 + 1) as usize;
                    out.emit(nopanic(construct_event(r.coin(), &types, &x[..cut.min(64)])), nt > 0);
                }
                // construct_arguments at its own guards: the exact payload of a type list cut at every position,
                // and every length prefix off by -1 .. +3
                let be = r.coin();
                let nt = 1 + r.below(4) as usize;
                let types: Vec<TypeInfo> = (0..nt).map(|_| TypeInfo { kind: gen::kind(&mut r), coding: gen::coding(&mut r), has_variable_info: r.coin(), has_trace_info: r.coin() }).collect();
                let data = exact_payload(&mut r, &types, be);
                for cut in 0..=data.len().min(48) {
                    out.calls += 1;
                    out.emit(nopanic(construct_event(be, &types, &data[..cut])), true);
                }
                let mut p = 0usize;
                for t in &types {
                    match t.kind {
                        TypeInfoKind::StringType | TypeInfoKind::Raw => {
                            if p + 2 > data.len() { break; }
                            let l = if be { u16::from_be_bytes([data[p], data[p + 1]]) } else { u16::from_le_bytes([data[p], data[p + 1]]) };
                            for d in [-1i32, 1, 2, 3, 255, 65535 - l as i32] {
                                let nl = (l as i32 + d).clamp(0, 65535) as u16;
                                let mut x = data.clone();
                                let bytes = if be { nl.to_be_bytes() } else { nl.to_le_bytes() };
                                x[p] = bytes[0]; x[p + 1] = bytes[1];
                                out.calls += 1;
                                out.emit(nopanic(construct_event(be, &types, &x)), true);
                            }
                            p += 2 + l as usize;
                        }
                        TypeInfoKind::Bool => p += 1,
                        _ => p += t.type_width() / 8,
                    }
                }
            }
        }
        // C16: chain parse -> as_bytes -> parse -> as_bytes on everything the parser returns
        "stable" => {
            for i in 0..n {
                let big = if i % 40 == 39 { 1000 } else { 24 };
                let m = if i % 120 == 59 { gen::boundary_message(&mut r, None) } else if i % 12 == 5 { gen::medium_message(&mut r, None) } else { gen::message(&mut r, &MsgOpts { storage: None, big, max_args: 3 }) };
                let sh = m.storage_header.is_some();
                let b = gen::ser(&m); if b.is_empty() { continue; }
                let mut cands = vec![(b.clone(), sh)];
                if i % 6 == 1 {
                    // bytes that do not come from the crate's writer
                    let n = *r.pick(&[0usize, 1, 127, 128, 253, 254, 255, 256, 257, 300, 1000, 4000]);
                    cands.push((gen::handmade_text_message(&mut r, n, sh), sh));
                }
                if i % 6 == 4 { cands.push((gen::handmade_float_message(&mut r, sh), sh)); }
                if b.len() > 20000 {
                    if let Some(pm) = item_of(&b, sh) { out.calls += 4; out.emit(stable_event(&pm, sh), true); }
                    continue;
                }
                for _ in 0..6 {
                    let mut x = gen::mutate(&mut r, &b, sh);
                    if r.one_in(3) { x = gen::mutate(&mut r, &x, sh); }
                    cands.push((x, sh));
                }
                for d in dialect(&mut r) { cands.push(d); }
                for (x, sh) in cands {
                    out.calls += 1;
                    if let Some(pm) = item_of(&x, sh) {
                        out.calls += 3;
                        out.emit(stable_event(&pm, sh), true);
                    }
                }
            }
        }
        // C05: every cut of a well-formed message
        "prefix" => {
            for i in 0..n {
                let big = if i % 20 == 19 { 200 } else { 16 };
                let m = gen::message(&mut r, &MsgOpts { storage: None, big, max_args: 3 });
                let sh = m.storage_header.is_some();
                let b = gen::ser(&m); if b.is_empty() { continue; }
                let ks: Vec<usize> = (0..b.len()).collect();
                let cfg = if i % 2 == 0 { Some(random_filter(&mut r, Some(&m))) } else { None };
                { let mut c = 0u64; let mut e = prefixes_event_f(&b, sh, &ks, &mut c, cfg.as_ref()); e["m"] = proj::message(&m); out.calls += c; out.emit(e, true); }
                if i % 60 == 11 {
                    // a maximal message (LEN = 65519 .. 65535): cuts in the headers, strided through the payload, and the last 40
                    let len = *r.pick(&[65519usize, 65520, 65534, 65535]);
                    let shm = r.below(4) != 0;
                    let mut x = if shm { b"DLT\x01\0\0\0\0\0\0\0\0ECU\0".to_vec() } else { vec![] };
                    x.extend([0x20u8, 0]);
                    x.extend((len as u16).to_be_bytes());
                    x.extend(r.bytes(len - 4));
                    let mut ks: Vec<usize> = (0..40.min(x.len())).collect();
                    ks.extend((40..x.len() - 40).step_by(4099));
                    ks.extend(x.len() - 40..x.len());
                    { let mut c = 0u64; let e = prefixes_event(&x, shm, &ks, &mut c); out.calls += c; out.emit(e, true); }
                }
            }
        }
        // C06: storage-header search, junk in front of a message, junk between the messages of a stream
        "junk" => {
            {
                // the search on inputs with far more than one maximal message behind the first pattern (whole-file buffers):
                // the slice handed out is the input from that occurrence on, all of it
                for behind in [65551usize, 65552, 70000, 200000] {
                    let lead = r.below(9) as usize;
                    let mut x: Vec<u8> = vec![b'j'; lead];
                    x.extend(b"DLT\x01");
                    x.extend((0..behind - 4).map(|i| [b'p', 0u8, b'D', 0x7F][(i / 5) % 4]));
                    out.calls += 1;
                    out.emit(forward_event(&x), true);
                }
            }
            {
                // junk ++ message filling a buffer of k x 64 KiB + {0, 7, 15} bytes exactly (lengths that wrap to 0..15 in 16 bits)
                let m = gen::message(&mut r, &MsgOpts { storage: Some(true), big: 8, max_args: 1 });
                let b = gen::ser(&m);
                if !b.is_empty() {
                    for rem in [0usize, 7, 15] {
                        let total = 65536 * (1 + r.below(2) as usize) + rem;
                        let junk: Vec<u8> = (0..total - b.len()).map(|i| [b'x', 0u8, b'L', 0xFE][(i / 7) % 4]).collect();
                        out.calls += 2;
                        out.emit(junkparse_event(&junk, &b, &[], None), true);
                    }
                }
            }
            {
                // very long pattern-free junk (one repeated byte): beyond one reader buffer (10 MiB) in front of a message, and
                // beyond 2^32 bytes in front of the pattern (the count is a 64-bit number)
                let m = gen::message(&mut r, &MsgOpts { storage: Some(true), big: 8, max_args: 1 });
                let b = gen::ser(&m);
                let alone = parse_res(&b, None, true, false);
                for nj in if b.is_empty() { vec![] } else { vec![10 * 1024 * 1024 - 4usize, 10 * 1024 * 1024, 10 * 1024 * 1024 + 100] } {
                    let mut x = vec![b'X'; nj];
                    x.extend(&b);
                    x.push(7);
                    out.calls += 1;
                    let a = parse_res(&x, None, true, false);
                    out.emit(json!({"op": "junkrep", "fill": 88, "n": nj, "msg": proj::bytes(&b), "a": a, "b": alone}), true);
                }
                let nj: usize = (1usize << 32) + 5 + r.below(1000) as usize;
                let mut x = vec![0u8; nj];
                x.extend(b"DLT\x01");
                out.calls += 1;
                let res = match catch_unwind(AssertUnwindSafe(|| forward_to_next_storage_header(&x).map(|(d, rest)| (d, rest.len())))) {
                    Ok(Some((d, rl))) => json!({"v": "found", "dropped": crate::build::limbs_u128(d as u128), "rest_len": rl}),
                    Ok(None) => json!({"v": "none", "dropped": [0], "rest_len": 0}),
                    Err(_) => json!({"v": "panic", "dropped": [0], "rest_len": 0}) };
                out.emit(json!({"op": "forwardrep", "fill": 0, "n": crate::build::limbs_u128(nj as u128), "res": res}), true);
            }
            for _ in 0..n {
                let junk = junk_bytes(&mut r);
                out.calls += 1;
                out.emit(forward_event(&junk), !junk.is_empty());
                let m = gen::message(&mut r, &MsgOpts { storage: Some(true), big: 16, max_args: 2 });
                let b = gen::ser(&m); if b.is_empty() { continue; }
                let k = r.below(6) as usize;
                let sfx = r.bytes(k);
                let mut with = junk.clone();
                with.extend(&b);
                with.extend(&sfx);
                let mut without = b.clone();
                without.extend(&sfx);
                out.calls += 3;
                out.emit(forward_event(&with), true);
                let cfg = if r.coin() { Some(random_filter(&mut r, Some(&m))) } else { None };
                out.emit(junkparse_event(&junk, &b, &sfx, cfg.as_ref()), true);
                if out.events % 97 == 5 {
                    // junk whose end brings the pattern across a power-of-two block boundary (256 B .. 128 KiB)
                    let k = 8 + r.below(10) as u32;
                    let jl = (1usize << k) - r.below(5) as usize;
                    let mut big_junk: Vec<u8> = (0..jl).map(|_| *r.pick(&[b'X', 0u8, b'D', b'L', b'T', 7u8])).collect();
                    // make it pattern-free by construction: never a 0x01 byte in it
                    for x in big_junk.iter_mut() { if *x == 1 { *x = 2; } }
                    let mut w = big_junk.clone();
                    w.extend(&b);
                    out.calls += 3;
                    out.emit(forward_event(&w), true);
                    out.emit(junkparse_event(&big_junk, &b, &sfx, None), true);
                }
                // a stream junk msg junk msg ... tail
                let np = 1 + r.below(3) as usize;
                let mut parts = vec![];
                let mut stream = vec![];
                for _ in 0..np {
                    let j = junk_bytes(&mut r);
                    let mb = gen::message(&mut r, &MsgOpts { storage: Some(true), big: 16, max_args: 2 }); let mb = gen::ser(&mb); if mb.is_empty() { continue; }
                    stream.extend(&j);
                    stream.extend(&mb);
                    out.calls += 1;
                    parts.push(json!({"junk": proj::bytes(&j), "msg": proj::bytes(&mb), "alone": parse_res(&mb, None, true, false)}));
                }
                let tail = junk_bytes(&mut r);
                stream.extend(&tail);
                let mut pos = 0usize;
                let mut steps = vec![];
                for _ in 0..8 {
                    out.calls += 1;
                    let res = parse_res(&stream[pos..], None, true, false);
                    let ok = res["v"] == "msg" || res["v"] == "filtered";
                    let consumed = res.get("consumed").and_then(|c| c.as_u64()).unwrap_or(0) as usize;
                    steps.push(json!({"pos": pos, "res": res}));
                    if !ok || consumed == 0 { break; }
                    pos += consumed;
                }
                out.emit(json!({"op": "recover", "parts": parts, "tail": proj::bytes(&tail), "steps": steps}), true);
            }
        }
        // C04 / C06: sessions (repeat until error) over streams with junk and malformed payloads
        "session" => {
            {
                // a whole-file buffer: well over one maximal message of stored messages, with a few bytes to skip in front
                let mut stream: Vec<u8> = (0..1 + r.below(9)).map(|_| *r.pick(&[b'x', 0u8, b'D', 0xFF])).collect();
                while stream.len() < 90_000 {
                    stream.extend(gen::ser(&gen::message(&mut r, &MsgOpts { storage: Some(true), big: 8, max_args: 1 })));
                }
                out.calls += 2;
                out.emit(frame_event(&stream, None, true, "parse"), true);
                let cfg = random_filter(&mut r, None);
                out.emit(frame_event(&stream, Some(&cfg), true, "parse"), true);
            }
            for i in 0..n {
                let sh = r.below(4) != 0;
                let nm = 1 + r.below(4) as usize;
                let mut stream = vec![];
                let mut last: Option<Message> = None;
                for j in 0..nm {
                    if sh && r.one_in(3) { stream.extend(junk_bytes(&mut r)); }
                    // frames whose length field has a non-zero high byte (256 .. 1000 bytes; now and then up to 65535): the counts a filtered-out
                    // marker and the skipper report are 16-bit quantities too
                    let m = if i % 6 == 5 && j == 0 { gen::medium_message(&mut r, Some(sh)) } else if i % 40 == 17 && j == 0 { gen::boundary_message(&mut r, Some(sh)) }
                            else { gen::message(&mut r, &MsgOpts { storage: Some(sh), big: 16, max_args: 2 }) };
                    let mut b = gen::ser(&m); if b.is_empty() { continue; }
                    if r.one_in(3) && b.len() < 2000 { b = corrupt_payload(&mut r, &b, sh); }
                    stream.extend(b);
                    last = Some(m);
                }
                if r.one_in(3) { let k = r.below(10) as usize; stream.extend(r.bytes(k)); }
                let cfg = if r.coin() { Some(random_filter(&mut r, if i % 2 == 0 { last.as_ref() } else { None })) } else { None };
                let mut calls = 0u64;
                let e = session_event(&stream, sh, cfg.as_ref(), "parse", &mut calls);
                out.emit(e, true);
                if sh {
                    let e = session_event(&stream, sh, None, "consume", &mut calls);
                    out.emit(e, true);
                }
                out.calls += calls;
                // single calls on mutated messages: whatever succeeds must consume the declared frame
                let m = gen::message(&mut r, &MsgOpts { storage: None, big: 16, max_args: 2 });
                let shm = m.storage_header.is_some();
                let b = gen::ser(&m); if b.is_empty() { continue; }
                for _ in 0..3 {
                    let mut x = if r.coin() { corrupt_payload(&mut r, &b, shm) } else { gen::mutate(&mut r, &b, shm) };
                    let k = r.below(8) as usize;
                    x.extend(r.bytes(k));
                    let cfg = if r.coin() { Some(random_filter(&mut r, Some(&m))) } else { None };
                    out.calls += 2;
                    out.emit(frame_event(&x, cfg.as_ref(), shm, "parse"), x.len() >= 4);
                    out.emit(frame_event(&x, None, true, "consume"), x.len() >= 20);
                }
            }
        }
        // C09: filtered parse against unfiltered parse, through both conversions of the configuration
        "filter" => {
            out.keep_convpanic = true;
            for i in 0..n {
                // (every seventh message with a length of 256 .. 1000 bytes, now and then one at the 16-bit limit: the payload length a marker carries)
                let m = if i % 7 == 3 { gen::medium_message(&mut r, None) } else if i % 50 == 21 { gen::boundary_message(&mut r, None) } else { gen::message(&mut r, &MsgOpts { storage: None, big: 12, max_args: 2 }) };
                let sh = m.storage_header.is_some();
                let mut b = gen::ser(&m); if b.is_empty() { continue; }
                if i % 9 == 8 && b.len() < 2000 { b = corrupt_payload(&mut r, &b, sh); }
                let k = r.below(4) as usize;
                b.extend(r.bytes(k));
                for j in 0..3 {
                    let cfg = random_filter(&mut r, Some(&m));
                    out.calls += 2;
                    out.emit(filter_event(&b, &cfg, sh, j % 2 == 0), true);
                }
            }
        }
        // C13: non-verbose argument construction
        "construct" => {
            for _ in 0..n {
                let be = r.coin();
                let maxt = if r.one_in(8) { 21 } else { 5 }; let nt = r.below(maxt) as usize;
                let with_fp = r.one_in(10);
                let types: Vec<TypeInfo> = (0..nt).map(|_| loop {
                    let k = gen::kind(&mut r);
                    if !with_fp && matches!(k, TypeInfoKind::SignedFixedPoint(_) | TypeInfoKind::UnsignedFixedPoint(_)) { continue; }
                    break TypeInfo { kind: k, coding: gen::coding(&mut r), has_variable_info: r.coin(), has_trace_info: r.coin() };
                }).collect();
                let data = exact_payload(&mut r, &types, be);
                out.calls += 1;
                out.emit(construct_event(be, &types, &data), nt > 0);
                if out.events % 307 == 29 {
                    // more signal types than a NOAR byte can count (the function has no such limit)
                    for nt in [255usize, 256, 257, 300] {
                        let ts: Vec<TypeInfo> = (0..nt).map(|k| TypeInfo { kind: if k % 2 == 0 { TypeInfoKind::Unsigned(TypeLength::BitLength8) } else { TypeInfoKind::Bool }, coding: StringCoding::ASCII, has_variable_info: false, has_trace_info: false }).collect();
                        let d: Vec<u8> = (0..nt).map(|k| k as u8).collect();
                        out.calls += 2;
                        out.emit(construct_event(be, &ts, &d), true);
                        out.emit(construct_event(be, &ts, &d[..nt - 1]), true);
                    }
                }
                if out.events % 211 == 17 {
                    // string / raw fields around 32 KiB and at the 16-bit limit, each followed by another field
                    for len in [0x7FFFusize, 0x8000, 0x8001, 0xFFFF] {
                        for kind in [TypeInfoKind::Raw, TypeInfoKind::StringType] {
                            let ts = vec![TypeInfo { kind: kind.clone(), coding: StringCoding::UTF8, has_variable_info: false, has_trace_info: false },
                                          TypeInfo { kind: TypeInfoKind::Unsigned(TypeLength::BitLength16), coding: StringCoding::ASCII, has_variable_info: false, has_trace_info: false }];
                            let mut d = if be { (len as u16).to_be_bytes().to_vec() } else { (len as u16).to_le_bytes().to_vec() };
                            d.extend(std::iter::repeat(b'x').take(len));
                            d.extend([1, 2]);
                            out.calls += 2;
                            out.emit(construct_event(be, &ts, &d), true);
                            out.emit(construct_event(be, &ts, &d[..d.len() - 3]), true);
                        }
                    }
                }
                match r.below(4) {
                    0 => { let k = 1 + r.below(4) as usize; let mut d = data.clone(); d.extend(r.bytes(k)); out.calls += 1; out.emit(construct_event(be, &types, &d), nt > 0); }
                    1 => { for cut in 0..data.len().min(40) { out.calls += 1; out.emit(construct_event(be, &types, &data[..cut]), nt > 0); } }
                    2 => { let d = gen::mutate(&mut r, &data, false); out.calls += 1; out.emit(construct_event(be, &types, &d), nt > 0); }
                    _ => { out.calls += 1; out.emit(construct_event(!be, &types, &data), nt > 0); }
                }
            }
        }
        // C19: fixed-size NUL-terminated fields
        "zstr" => {
            // NUL, ASCII, blank / tab / NBSP (what a trimming normalisation would remove), complete and incomplete multi-byte sequences
            let alphabet: [u8; 16] = [0, b'A', b'z', b' ', b'\t', 0xC2, 0xA0, 0xC3, 0xA9, 0xE2, 0x82, 0xAC, 0xF0, 0x9F, 0x98, 0xFF];
            for i in 0..n {
                let len = if i % 50 == 49 { r.below(70000) as usize } else { r.below(12) as usize };
                let buf: Vec<u8> = match r.below(3) {
                    0 => r.bytes(len),
                    1 => (0..len).map(|_| *r.pick(&alphabet)).collect(),
                    _ => { let mut s = r.text(len / 2 + 1).into_bytes(); if r.coin() { let p = r.below(s.len() as u64 + 1) as usize; s.insert(p, 0); } s }
                };
                let size = match r.below(6) { 0 => buf.len(), 1 => buf.len() + 1 + r.below(3) as usize, 2 => buf.len().saturating_sub(1 + r.below(3) as usize), 3 => r.below(6) as usize, 4 => 65535, _ => r.below(buf.len() as u64 + 2) as usize };
                out.calls += 1;
                out.emit(zstr_event(&buf, size), !buf.is_empty());
                // the same rule through the 4-byte ids of a message
                if i % 4 == 0 {
                    let idb: Vec<u8> = (0..12).map(|_| *r.pick(&alphabet)).collect();
                    let be = r.coin();
                    let shid: Vec<u8> = (0..4).map(|_| *r.pick(&alphabet)).collect();
                    // an entirely canonical non-verbose log message (NOAR 0; the 4 payload bytes are the message id) around the id fields
                    let mk = |idb: &[u8], shid: &[u8]| -> (Vec<u8>, Vec<u8>) {
                        let mut m = vec![if be { 0x27 } else { 0x25 }, 1, 0, 22];
                        m.extend(&idb[0..4]);
                        m.extend([0x40, 0]);
                        m.extend(&idb[4..12]);
                        m.extend([1, 2, 3, 4]);
                        let mut s = b"DLT\x01\0\0\0\0\0\0\0\0".to_vec();
                        s.extend(shid);
                        s.extend(&m);
                        (m, s)
                    };
                    let (m, s) = mk(&idb, &shid);
                    // control: the same message with plain ids.  If the code does not return a message for it either, a refusal of
                    // the variant says nothing about the id rule (the premise of the relation)
                    let (m0, s0) = mk(b"ECU\0APP\0CTX\0", b"ECU\0");
                    // the same messages cut inside each of their id fields, with and without junk in front of the storage header
                    let junk: Vec<u8> = (0..r.below(6)).map(|_| *r.pick(&[b'X', 0u8, b'D', 9u8])).collect();
                    for cut in [12usize, 13, 14, 15, 16 + 4, 16 + 5, 16 + 7, 16 + 10, 16 + 11, 16 + 13, 16 + 14, 16 + 17] {
                        let mut x = junk.clone();
                        x.extend(&s[..cut.min(s.len())]);
                        out.calls += 1;
                        let mut e = parse_event(&x, None, true);
                        e["op"] = json!("idcut");
                        out.emit(e, true);
                    }
                    for cut in [4usize, 5, 7, 10, 11, 13, 14, 17] {
                        out.calls += 1;
                        let mut e = parse_event(&m[..cut], None, false);
                        e["op"] = json!("idcut");
                        out.emit(e, true);
                    }
                    out.calls += 4;
                    // with and without a filter that lets everything pass (the ids of the message returned are those of the bytes)
                    let pass_all = DltFilterConfig { min_log_level: None, app_ids: None, ecu_ids: None, context_ids: None, app_id_count: 0, context_id_count: 0 };
                    out.calls += 3;
                    let f1 = if i % 8 == 0 { Some(&pass_all) } else { None };
                    let mut e1 = parse_event(&m, f1, false);
                    e1["op"] = json!("ids");
                    e1["ctrl"] = json!(parse_event(&m0, f1, false)["res"]["v"].as_str().unwrap_or("none"));
                    out.emit(e1, true);
                    let f2 = if i % 8 == 4 { Some(&pass_all) } else { None };
                    let mut e2 = parse_event(&s, f2, true);
                    e2["op"] = json!("ids");
                    e2["ctrl"] = json!(parse_event(&s0, f2, true)["res"]["v"].as_str().unwrap_or("none"));
                    out.emit(e2, true);
                    // bytes skipped in front of the storage header
                    let mut js = junk.clone();
                    js.extend(&s);
                    let mut js0 = junk.clone();
                    js0.extend(&s0);
                    let mut e3 = parse_event(&js, None, true);
                    e3["op"] = json!("ids");
                    e3["ctrl"] = json!(parse_event(&js0, None, true)["res"]["v"].as_str().unwrap_or("none"));
                    out.emit(e3, true);
                }
            }
        }
        _ => panic!("unknown slice mode {}", mode),
    }
}

/// a payload that holds exactly one field per signal type
pub fn exact_payload(r: &mut Rng, types: &[TypeInfo], be: bool) -> Vec<u8> {
    let mut data = vec![];
    for t in types {
        match &t.kind {
            TypeInfoKind::StringType => {
                let s = if r.one_in(6) { let k = r.below(5) as usize; r.bytes(k) } else { let mut s = r.text(6).into_bytes(); if r.one_in(4) { s.push(0); } s };
                let l = s.len() as u16;
                data.extend(if be { l.to_be_bytes() } else { l.to_le_bytes() });
                data.extend(s);
            }
            TypeInfoKind::Raw => {
                let k = r.below(6) as usize;
                let l = k as u16;
                data.extend(if be { l.to_be_bytes() } else { l.to_le_bytes() });
                data.extend(r.bytes(k));
            }
            TypeInfoKind::Bool => data.push(r.next() as u8),
            k => { let w = TypeInfo { kind: k.clone(), coding: StringCoding::ASCII, has_variable_info: false, has_trace_info: false }.type_width() / 8; data.extend(r.bytes(w)); }
        }
    }
    data
}
/// junk that may contain partial patterns; the specification decides whether it contains the pattern
fn junk_bytes(r: &mut Rng) -> Vec<u8> {
    let n = r.below(14) as usize;
    let alpha = [b'D', b'L', b'T', 1u8, b'X', 0u8];
    // longer runs of one filler byte (zero padding of preallocated files, erased flash, blanks) and longer random junk
    // a record whose storage header was lost: a complete message without storage header in front of the next pattern
    if r.one_in(7) {
        let m = gen::message(r, &MsgOpts { storage: Some(false), big: 8, max_args: 1 });
        let mut b = gen::ser(&m);
        if r.coin() { let mut c = gen::ser(&gen::boundary_small(r)); b.append(&mut c); }
        return b;
    }
    if r.one_in(6) {
        let k = 16 + r.below(80) as usize;
        return match r.below(3) { 0 => vec![*r.pick(&[0u8, 0xFF, b' ']); k], 1 => r.bytes(k), _ => { let mut v = vec![0u8; k]; v.extend(b"DL"); v } };
    }
    match r.below(3) {
        0 => r.bytes(n),
        1 => (0..n).map(|_| *r.pick(&alpha)).collect(),
        _ => { let mut v: Vec<u8> = (0..n).map(|_| *r.pick(&alpha)).collect(); v.extend(b"DLT"); v }
    }
}
/// damage the payload encoding but keep the headers (C04: malformed payloads)
fn corrupt_payload(r: &mut Rng, b: &[u8], sh: bool) -> Vec<u8> {
    let o = if sh { 16 } else { 0 };
    let mut x = b.to_vec();
    if x.len() <= o + 4 { return x; }
    let htyp = x[o];
    let std = 4 + 4 * ((htyp >> 2 & 1) + (htyp >> 3 & 1) + (htyp >> 4 & 1)) as usize;
    let hdrs = std + if htyp & 1 == 1 { 10 } else { 0 };
    match r.below(4) {
        0 if htyp & 1 == 1 && x.len() > o + std + 1 => { x[o + std + 1] = x[o + std + 1].wrapping_add(1 + r.below(3) as u8); } // NOAR too large
        1 if htyp & 1 == 1 && x.len() > o + std + 1 => { x[o + std + 1] = x[o + std + 1].wrapping_sub(1); }                  // NOAR too small
        2 if x.len() > o + hdrs + 6 => { let i = o + hdrs + 4 + r.below(2) as usize; x[i] = x[i].wrapping_add(1 + r.below(200) as u8); } // a length prefix
        _ if x.len() > o + hdrs => { let i = o + hdrs + r.below((x.len() - o - hdrs) as u64) as usize; x[i] ^= 1 << r.below(8); }
        _ => {}
    }
    x
}
/// one session: repeat the call on the remainder until it does not return Ok (or 64 steps)
fn session_event(stream: &[u8], sh: bool, cfg: Option<&DltFilterConfig>, api: &str, calls: &mut u64) -> J {
    let processed: Option<ProcessedDltFilterConfig> = match conv_opt(cfg) { Ok(p) => p, Err(()) => return convpanic(cfg) };
    let mut pos = 0usize;
    let mut steps = vec![];
    for _ in 0..64 {
        let buf = &stream[pos..];
        *calls += 1;
        let res = if api == "parse" { parse_res(buf, processed.as_ref(), sh, false) } else { consume_res(buf) };
        let slim = frame_res(&res);
        let v = slim["v"].as_str().unwrap().to_string();
        let consumed = slim["consumed"].as_u64().unwrap() as usize;
        steps.push(json!({"pos": pos, "res": slim}));
        if v == "msg" || v == "filtered" || v == "skipped" {
            if consumed == 0 { break; }
            pos += consumed;
        } else {
            break;
        }
    }
    json!({"op": "session", "api": api, "buf": proj::bytes(stream), "sh": sh, "flt": proj::opt(&cfg, |c| proj::filter_config(c)), "steps": steps})
}

/// encodings real ECUs emit that the crate's own writer never produces (C02 "dialect")
pub fn dialect(r: &mut Rng) -> Vec<(Vec<u8>, bool)> {
    let mut v = vec![];
    let be = r.coin();
    let htyp: u8 = 0x21 | if be { 2 } else { 0 } | 4; // v1, UEH, WEID
    let w16 = |x: u16| if be { x.to_be_bytes() } else { x.to_le_bytes() };
    let w32 = |x: u32| if be { x.to_be_bytes() } else { x.to_le_bytes() };
    let mk = |payload: Vec<u8>, noar: u8, msin: u8, ecu: &[u8], ap: &[u8], ct: &[u8]| {
        let len = (4 + 4 + 10 + payload.len()) as u16;
        let mut m = vec![htyp, 7];
        m.extend(len.to_be_bytes());
        m.extend(ecu);
        m.extend([msin, noar]);
        m.extend(ap);
        m.extend(ct);
        m.extend(payload);
        m
    };
    // bool with TYLE = 1, short ids padded with NUL
    let mut p = w32(0x11).to_vec();
    p.push(1);
    v.push((mk(p, 1, 0x41, b"E\0\0\0", b"AP\0\0", b"C\0\0\0"), false));
    // unused type-info bits set: STRU (14), bits 18..31, FIXP on bool, TYLE on string
    let ti = 0x10u32 | 1 << 14 | (r.next() as u32) << 18 | 1 << 12;
    let mut p = w32(ti).to_vec();
    p.push(0);
    v.push((mk(p, 1, 0x41, b"ECU1", b"APP\0", b"CTX\0"), false));
    // string shorter than its size field (early NUL), ASCII coding with TYLE bits
    let mut p = w32(0x200 | r.below(16) as u32).to_vec();
    p.extend(w16(6));
    p.extend(b"ab\0cd\0");
    v.push((mk(p, 1, 0x41, b"ECU1", b"APP\0", b"CTX\0"), false));
    // string without terminator, invalid UTF-8 tail
    let mut p = w32(0x8200).to_vec();
    p.extend(w16(4));
    p.extend([b'o', b'k', 0xC3, 0x28]);
    v.push((mk(p, 1, 0x41, b"ECU1", b"APP\0", b"CTX\0"), false));
    // trailing payload bytes after the last argument, NOAR = 0 with payload
    let mut p = w32(0x42).to_vec();
    p.extend(w16(513));
    p.extend([9, 9, 9]);
    v.push((mk(p.clone(), 1, 0x41, b"ECU1", b"APP\0", b"CTX\0"), false));
    v.push((mk(p, 0, 0x41, b"ECU1", b"APP\0", b"CTX\0"), false));
    // variable info with empty name and unit (length 1 = only the terminator), and with length 0
    let mut p = w32(0x43 | 1 << 11).to_vec();
    p.extend(w16(1)); p.extend(w16(1)); p.extend([0, 0]); p.extend(w32(77));
    v.push((mk(p, 1, 0x41, b"ECU1", b"APP\0", b"CTX\0"), false));
    let mut p = w32(0x43 | 1 << 11).to_vec();
    p.extend(w16(0)); p.extend(w16(0)); p.extend(w32(77));
    v.push((mk(p, 1, 0x41, b"ECU1", b"APP\0", b"CTX\0"), false));
    // network trace with named raw, and a non-raw argument between raws
    let mut p = w32(0x400).to_vec();
    p.extend(w16(2)); p.extend([1, 2]);
    p.extend(w32(0x41)); p.push(5);
    p.extend(w32(0x400 | 1 << 11)); p.extend(w16(1)); p.extend(w16(2)); p.extend(b"n\0"); p.push(3);
    v.push((mk(p, 3, 0x25, b"ECU1", b"APP\0", b"CTX\0"), false));
    // control message with unknown service id; verbose control; unknown message type
    v.push((mk(vec![0xF0, 1, 2], 0, 0x26, b"ECU1", b"APP\0", b"CTX\0"), false));
    v.push((mk(vec![], 0, 0x26, b"ECU1", b"APP\0", b"CTX\0"), false));
    v.push((mk(vec![1, 2, 3], 0, 0x2A | (r.below(16) as u8) << 4, b"ECU1", b"APP\0", b"CTX\0"), false));
    v.push((mk(vec![1, 2, 3, 4, 5], r.next() as u8, (r.next() as u8) & 0xFE, b"\0\0\0\0", b"\0ab\0", b"a\0b\0"), false));
    // with storage header (ECU id not terminated; junk in front)
    let base = v[0].0.clone();
    let mut s = r.bytes(3);
    s.extend(b"DLT\x01");
    s.extend(r.bytes(8));
    s.extend(b"ECUX");
    s.extend(&base);
    v.push((s, true));
    v
}

/// inputs aimed at the guards of the reference decoder: each length comparison at the boundary and +-1
pub fn hostile_inputs(r: &mut Rng, big: usize) -> Vec<(Vec<u8>, bool)> {
    let mut v: Vec<(Vec<u8>, bool)> = vec![];
    let m = gen::message(r, &MsgOpts { storage: None, big: big.min(60000), max_args: if big > 1000 { 40 } else { 3 } });
    let sh = m.storage_header.is_some();
    let b = gen::ser(&m); if b.is_empty() { return vec![(vec![], false)]; }
    let o = if sh { 16 } else { 0 };
    let htyp = b[o];
    let std = 4 + 4 * ((htyp >> 2 & 1) + (htyp >> 3 & 1) + (htyp >> 4 & 1)) as usize;
    let hdrs = std + if htyp & 1 == 1 { 10 } else { 0 };
    let set_len = |x: &mut Vec<u8>, l: usize| { x[o + 2] = (l >> 8) as u8; x[o + 3] = l as u8; };
    // cut at each guard and one byte either side
    for g in [0usize, 1, 3, 4, 15, 16, 17, o + 3, o + 4, o + 5, o + std - 1, o + std, o + std + 1, o + hdrs - 1, o + hdrs, o + hdrs + 1, o + hdrs + 3, o + hdrs + 4, o + hdrs + 5, b.len() - 1] {
        if g <= b.len() { v.push((b[..g].to_vec(), sh)); }
    }
    // declared length around the header sizes and the real size
    for l in [0usize, 1, 3, 4, std - 1, std, std + 1, hdrs - 1, hdrs, hdrs + 1, hdrs + 3, hdrs + 4, hdrs + 5, b.len() - o - 1, b.len() - o + 1, 65535] {
        let mut x = b.clone();
        if x.len() > o + 3 && l <= 65535 { set_len(&mut x, l); v.push((x, sh)); }
    }
    // NOAR extremes
    if htyp & 1 == 1 {
        for noar in [0u8, 1, 254, 255] {
            let mut x = b.clone();
            x[o + std + 1] = noar;
            v.push((x, sh));
        }
        // verbose flag flipped, message type flipped to control / network trace
        for msin in [0u8, 1, 0x26, 0x27, 0x25, 0x24, 0xFF, 0x0F] {
            let mut x = b.clone();
            x[o + std] = msin;
            v.push((x, sh));
        }
    }
    // message type x declared length: control and non-verbose types with a payload of 0..5 bytes
    if htyp & 1 == 1 {
        for msin in [0x06u8, 0x16, 0x26, 0x07, 0x00, 0x40, 0x02, 0x04] {
            for extra in [0usize, 1, 3, 4, 5] {
                let mut x = b.clone();
                x[o + std] = msin;
                if x.len() > o + 3 { set_len(&mut x, hdrs + extra); v.push((x, sh)); }
            }
        }
    }
    // every 16-bit length field of an argument at its extremes (string / raw length, name and unit lengths of variable info),
    // alone and in pairs whose sum passes 65535
    {
        let be = r.coin();
        let w16 = |x: u16| if be { x.to_be_bytes() } else { x.to_le_bytes() };
        let w32 = |x: u32| if be { x.to_be_bytes() } else { x.to_le_bytes() };
        let ext = [0x41u8, 1, b'A', b'P', b'P', 0, b'C', b'T', b'X', 0];
        let lens = [0u16, 1, 2, 0x7FFF, 0x8000, 0x8001, 0xFFFE, 0xFFFF];
        let a = *r.pick(&lens); let b2 = *r.pick(&lens);
        for (ti, two) in [(0x0000_0843u32, true), (0x0000_0823, true), (0x0000_0885, true), (0x0000_0A00, false), (0x0000_0C00, false), (0x0000_0811, false), (0x0000_0200, false), (0x0000_0400, false)] {
            // 0x843 u32+VARI, 0x823 i32+VARI, 0x885 f64+VARI: name and unit; 0xA00 string+VARI, 0xC00 raw+VARI, 0x811 bool+VARI: length(s) then name; 0x200 / 0x400: length only
            let mut pl: Vec<u8> = w32(ti).to_vec();
            pl.extend(w16(a));
            if two || ti & 0x800 != 0 { pl.extend(w16(b2)); }
            let nx = r.below(12) as usize;
            pl.extend(r.bytes(nx));
            for declared in [pl.len(), 65535 - 14] {
                let mut x = vec![0x21 | if be { 2 } else { 0 }, 7, 0, 0];
                let total = 4 + 10 + declared;
                x[2] = (total >> 8) as u8; x[3] = total as u8;
                x.extend(ext);
                x.extend(&pl);
                if declared > pl.len() && r.one_in(4) { x.extend(vec![b'n'; declared - pl.len()]); }
                v.push((x, false));
            }
        }
    }
    // results whose own serialisation is longer than the bytes they came from (a string argument without terminator gains one
    // when written), at the 16-bit limit of the length field and at the 8- / 15-bit ones: measuring and writing them must not panic
    {
        let be = r.coin();
        let w16 = |x: u16| if be { x.to_be_bytes() } else { x.to_le_bytes() };
        let w32 = |x: u32| if be { x.to_be_bytes() } else { x.to_le_bytes() };
        for total in [65535usize, 65534, 65533, 65521, 32768, 32767, 256, 255] {
            let opt = *r.pick(&[0u8, 4, 8, 16, 12, 28]);
            let htyp = 0x21 | if be { 2 } else { 0 } | opt;
            let hdrs = 4 + 4 * ((opt >> 2 & 1) + (opt >> 3 & 1) + (opt >> 4 & 1)) as usize + 10;
            let nargs = 1 + r.below(3) as usize;
            let room = total - hdrs - 6 * nargs;
            let mut x = vec![htyp, 9, (total >> 8) as u8, total as u8];
            x.extend(r.bytes(hdrs - 14));
            x.extend([0x41u8, nargs as u8, b'A', b'P', b'P', 0, b'C', b'T', b'X', 0]);
            let mut left = room;
            for k in 0..nargs {
                let n = if k + 1 == nargs { left } else { r.below(left as u64 + 1) as usize };
                left -= n;
                x.extend(w32(if r.coin() { 0x0000_8200 } else { 0x0000_0200 }));
                x.extend(w16(n as u16));
                x.extend(std::iter::repeat(b'q').take(n));
            }
            if r.coin() { let mut y = b"DLT\x01".to_vec(); y.extend(r.bytes(8)); y.extend(b"ECU1"); y.extend(&x); v.push((y, true)); } else { v.push((x, false)); }
        }
    }
    // random mutants, wrong storage mode, all-0xFF, zeros, very long
    for _ in 0..4 { v.push((gen::mutate(r, &b, sh), sh)); }
    v.push((b.clone(), !sh));
    v.push((vec![0xFF; 40], r.coin()));
    v.push((vec![0; 40], r.coin()));
    if big > 65536 {
        // buffers > 64 KiB: a maximal message followed by more, length prefixes of 65535, NOAR 255 with empty payload
        let be = r.coin();
        let w16 = |x: u16| if be { x.to_be_bytes() } else { x.to_le_bytes() };
        let w32 = |x: u32| if be { x.to_be_bytes() } else { x.to_le_bytes() };
        let mk = |payload: &[u8], noar: u8, len: u16| {
            let mut x = vec![0x21 | if be { 2 } else { 0 }, 0];
            x.extend(len.to_be_bytes());
            x.extend([0x41, noar]);
            x.extend(b"APP\0CTX\0");
            x.extend(payload);
            x
        };
        // a string argument whose name claims 65535 bytes (only a buffer beyond the message can hold it)
        let mut p = w32(0x200 | 1 << 11).to_vec();
        p.extend(w16(10)); p.extend(w16(65535));
        p.extend(std::iter::repeat(b'n').take(65535));
        p.extend(std::iter::repeat(b's').take(10));
        v.push((mk(&p, 1, 65535), false));
        v.push((mk(&p, 1, 40), false));
        let mut p = w32(0x200).to_vec();
        p.extend(w16(65535));
        p.extend(std::iter::repeat(b's').take(65600));
        v.push((mk(&p, 1, 65535), false));
        v.push((mk(&p, 255, 65535), false));
        let mut p = w32(0x400).to_vec();
        p.extend(w16(65535));
        p.extend(r.bytes(66000));
        v.push((mk(&p, 1, 65535), false));
        v.push((mk(&[], 255, 14), false));
        // complete maximal messages behind a storage header (16 + LEN exceeds 16 bits), followed by more data
        for len in [65519u16, 65520, 65534, 65535] {
            let mut x = b"DLT\x01\0\0\0\0\0\0\0\0ECU\0".to_vec();
            x.extend([0x20u8, 0]);
            x.extend(len.to_be_bytes());
            x.extend(r.bytes(len as usize - 4 + 9));
            v.push((x, true));
        }
        v.push((r.bytes(70000), r.coin()));
        let mut x = b"DLT\x01".to_vec();
        x.extend(r.bytes(69000));
        v.push((x, true));
    }
    v
}

// ------------------------------------------------------------------------------------------------
/// re-execute the call of one recorded event against the current build (./check replay)
pub fn rerun(ev: &J) -> J {
    use crate::unproj;
    let op = ev["op"].as_str().unwrap_or("");
    let buf = || unproj::bytes(&ev["buf"]);
    let sh = ev["sh"].as_bool().unwrap_or(false);
    let cfg: Option<DltFilterConfig> = ev.get("flt").and_then(|f| f.as_array()).and_then(|a| a.first()).map(unproj::filter_config);
    match op {
        "parse" => match (ev.get("direct").and_then(|d| d.as_u64()), cfg.as_ref()) { (Some(l), Some(c)) => parse_event_direct(&buf(), c, l as u8, sh), _ => parse_event(&buf(), cfg.as_ref(), sh) },
        "consume" => consume_event(&buf()),
        "skip" => skip_event(&buf()),
        "forward" => forward_event(&buf()),
        "zstr" => zstr_event(&buf(), ev["size"].as_u64().unwrap() as usize),
        "construct" => {
            let types: Vec<TypeInfo> = ev["types"].as_array().unwrap().iter().map(unproj::type_info).collect();
            construct_event(ev["be"].as_bool().unwrap(), &types, &unproj::bytes(&ev["data"]))
        }
        "reser" => reser_event(&unproj::message(&ev["m"]), ev["parsed"].as_bool().unwrap_or(false)),
        "stable" => stable_event(&unproj::message(&ev["m"]), sh),
        "enc" => { let m = unproj::message(&ev["m"]); json!({"op": "enc", "m": ev["m"].clone(), "bytes": proj::bytes(&m.as_bytes())}) }
        "round" => {
            let m = unproj::message(&ev["m"]);
            let sh = m.storage_header.is_some();
            let b = m.as_bytes();
            let sfx: Vec<Vec<u8>> = ev["sfx"].as_array().unwrap().iter().map(unproj::bytes).collect();
            let res: Vec<J> = sfx.iter().map(|s| { let mut x = b.clone(); x.extend(s); parse_res(&x, None, sh, true) }).collect();
            json!({"op": "round", "m": ev["m"].clone(), "bytes": proj::bytes(&b), "sfx": ev["sfx"].clone(), "res": res})
        }
        "prefixes" => {
            let b = unproj::bytes(&ev["full"]);
            let ks: Vec<usize> = ev["ks"].as_array().unwrap().iter().map(|k| k.as_u64().unwrap() as usize).collect();
            let mut c = 0u64;
            let mut e = prefixes_event_f(&b, sh, &ks, &mut c, cfg.as_ref());
            if let Some(m) = ev.get("m") { e["m"] = m.clone(); }
            e
        }
        "nopanic" => { let mut e2 = ev.clone(); e2["op"] = ev["api"].clone(); let mut e3 = nopanic(rerun(&e2)); if let Some(d) = ev.get("direct") { e3["direct"] = d.clone(); } e3 }
        "reser3" => { let mut e = reser_event(&unproj::message(&ev["m"]), true); e["op"] = json!("reser3"); e }
        "frame" => frame_event(&buf(), cfg.as_ref(), sh, ev["api"].as_str().unwrap()),
        "filter" => filter_event(&buf(), cfg.as_ref().unwrap(), sh, true),
        "ids" | "idcut" => { let mut e = parse_event(&buf(), None, sh); e["op"] = ev["op"].clone(); if let Some(c) = ev.get("ctrl") { e["ctrl"] = c.clone(); } e }
        "junkparse" => junkparse_event(&unproj::bytes(&ev["junk"]), &unproj::bytes(&ev["msg"]), &unproj::bytes(&ev["sfx"]), cfg.as_ref()),
        "recover" => {
            let mut stream = vec![];
            let mut parts = vec![];
            for p in ev["parts"].as_array().unwrap() {
                let (j, mb) = (unproj::bytes(&p["junk"]), unproj::bytes(&p["msg"]));
                stream.extend(&j); stream.extend(&mb);
                parts.push(json!({"junk": p["junk"].clone(), "msg": p["msg"].clone(), "alone": parse_res(&mb, None, true, false)}));
            }
            stream.extend(unproj::bytes(&ev["tail"]));
            let mut pos = 0usize;
            let mut steps = vec![];
            for _ in 0..8 {
                let res = parse_res(&stream[pos..], None, true, false);
                let ok = res["v"] == "msg" || res["v"] == "filtered";
                let consumed = res.get("consumed").and_then(|c| c.as_u64()).unwrap_or(0) as usize;
                steps.push(json!({"pos": pos, "res": res}));
                if !ok || consumed == 0 { break; }
                pos += consumed;
            }
            json!({"op": "recover", "parts": parts, "tail": ev["tail"].clone(), "steps": steps})
        }
        "session" => { let mut c = 0u64; session_event(&buf(), sh, cfg.as_ref(), ev["api"].as_str().unwrap(), &mut c) }
        _ => json!({"op": "unknown"}),
    }
}
