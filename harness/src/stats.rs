//! Suite "stats" (C10): collect_statistics over the real reader with a recording collector and with the
//! standard collector; splits at message boundaries; every order and grouping of merging the parts.
use crate::gen::{self, MsgOpts};
use crate::proj;
use crate::rng::Rng;
use crate::unproj;
use crate::Out;
use dlt_core::dlt::*;
use dlt_core::parse::DltParseError;
use dlt_core::read::DltMessageReader;
use dlt_core::statistics::common::{LevelDistribution, StatisticInfo, StatisticInfoCollector};
use dlt_core::statistics::{collect_statistics, Statistic, StatisticCollector};
use serde_json::{json, Value as J};
use std::panic::{catch_unwind, AssertUnwindSafe};

fn level_num(l: &LogLevel) -> u8 {
    match l { LogLevel::Fatal => 1, LogLevel::Error => 2, LogLevel::Warn => 3, LogLevel::Info => 4, LogLevel::Debug => 5, LogLevel::Verbose => 6, LogLevel::Invalid(n) => *n }
}
struct Recorder { visits: Vec<J> }
impl StatisticCollector for Recorder {
    fn collect_statistic(&mut self, s: Statistic) -> Result<(), DltParseError> {
        self.visits.push(json!({"level": proj::opt(&s.log_level, |l| json!(level_num(l))), "sh": proj::opt(&s.storage_header, proj::storage_header),
            "h": proj::std_header(&s.standard_header), "x": proj::opt(&s.extended_header, proj::ext_header), "plen": s.payload.len(), "verbose": s.is_verbose}));
        Ok(())
    }
}
fn dist(d: &LevelDistribution) -> J {
    json!([d.non_log, d.log_fatal, d.log_error, d.log_warning, d.log_info, d.log_debug, d.log_verbose, d.log_invalid])
}
fn table(t: &[(String, LevelDistribution)]) -> J {
    let mut v: Vec<(Vec<u8>, J)> = t.iter().map(|(id, d)| (id.as_bytes().to_vec(), dist(d))).collect();
    v.sort_by(|a, b| a.0.cmp(&b.0));
    J::Array(v.into_iter().map(|(id, d)| json!([proj::bytes(&id), d])).collect())
}
pub fn info(i: &StatisticInfo) -> J {
    json!({"app": table(&i.app_ids), "ctx": table(&i.context_ids), "ecu": table(&i.ecu_ids), "nonverbose": i.contained_non_verbose})
}
/// the scan runs over a scripted, fragmenting source (short reads, interruptions), not over a slice
fn collect_sched(bytes: &[u8], sh: bool, sched: &[crate::reader::Resp]) -> Result<StatisticInfo, String> {
    let mut rd = DltMessageReader::new(crate::reader::Script::plain(bytes, sched), sh);
    let mut c = StatisticInfoCollector::default();
    collect_statistics(&mut rd, &mut c).map_err(|e| format!("{}", e))?;
    Ok(c.collect())
}
fn collect(bytes: &[u8], sh: bool) -> Result<StatisticInfo, String> {
    let mut rd = DltMessageReader::new(bytes, sh);
    let mut c = StatisticInfoCollector::default();
    collect_statistics(&mut rd, &mut c).map_err(|e| format!("{}", e))?;
    Ok(c.collect())
}
fn clone_info(i: &StatisticInfo) -> StatisticInfo {
    StatisticInfo { app_ids: i.app_ids.clone(), context_ids: i.context_ids.clone(), ecu_ids: i.ecu_ids.clone(), contained_non_verbose: i.contained_non_verbose }
}
/// all orders and groupings of merging up to 3 parts (left-nested and right-nested for every permutation)
fn all_merges(parts: &[StatisticInfo]) -> Vec<J> {
    let n = parts.len();
    let mut res = vec![];
    let perms: Vec<Vec<usize>> = match n {
        0 => vec![],
        1 => vec![vec![0]],
        2 => vec![vec![0, 1], vec![1, 0]],
        _ => vec![vec![0, 1, 2], vec![0, 2, 1], vec![1, 0, 2], vec![1, 2, 0], vec![2, 0, 1], vec![2, 1, 0]],
    };
    for p in perms {
        // ((a + b) + c)
        let mut acc = clone_info(&parts[p[0]]);
        for k in &p[1..] { acc.merge(clone_info(&parts[*k])); }
        res.push(info(&acc));
        if n == 3 {
            // (a + (b + c))
            let mut right = clone_info(&parts[p[1]]);
            right.merge(clone_info(&parts[p[2]]));
            let mut acc = clone_info(&parts[p[0]]);
            acc.merge(right);
            res.push(info(&acc));
            // into a fresh summary
            let mut fresh = StatisticInfo::new();
            for k in &p { fresh.merge(clone_info(&parts[*k])); }
            res.push(info(&fresh));
        }
    }
    res
}
pub fn stats_event(stream: &[u8], sh: bool, bounds: &[usize], c1: usize, c2: usize, sched: &[crate::reader::Resp]) -> J {
    let res = catch_unwind(AssertUnwindSafe(|| {
        let mut rec = Recorder { visits: vec![] };
        let mut rd = DltMessageReader::new(crate::reader::Script::plain(stream, sched), sh);
        let rc = match collect_statistics(&mut rd, &mut rec) { Ok(()) => "ok", Err(_) => "err" };
        let whole = collect_sched(stream, sh, sched);
        // parts at message boundaries: [0, b(c1)), [b(c1), b(c2)), [b(c2), end)
        let cut = |k: usize| if k == 0 { 0 } else { bounds[k - 1] };
        let segs = [(0, cut(c1)), (cut(c1), cut(c2)), (cut(c2), stream.len())];
        let parts: Vec<StatisticInfo> = segs.iter().filter_map(|(a, b)| collect(&stream[*a..*b], sh).ok()).collect();
        json!({"v": "ok", "rc": rc, "visits": rec.visits, "result": match &whole { Ok(i) => json!([info(i)]), Err(_) => json!([]) },
               "parts": parts.iter().map(info).collect::<Vec<_>>(), "merged": all_merges(&parts)})
    }));
    let res = match res { Ok(j) => j, Err(_) => json!({"v": "panic"}) };
    json!({"op": "stats", "sh": sh, "stream": proj::bytes(stream), "bounds": bounds, "split": [c1, c2], "sched": crate::reader::sched_json(sched), "res": res})
}

/// beyond the listed properties: reader -> parse -> filter -> statistics in one behaviour (./check extras)
pub fn pipeline_event(stream: &[u8], sh: bool, cfg: &dlt_core::filtering::DltFilterConfig) -> J {
    let res = catch_unwind(AssertUnwindSafe(|| {
        let processed: dlt_core::filtering::ProcessedDltFilterConfig = cfg.into();
        let mut rd = DltMessageReader::new(stream, sh);
        let mut pm = vec![];
        loop {
            match dlt_core::read::read_message(&mut rd, Some(&processed)) {
                Ok(Some(dlt_core::parse::ParsedMessage::Item(m))) => pm.push(json!({"v": "msg", "h": proj::std_header(&m.header), "x": proj::opt(&m.extended_header, proj::ext_header)})),
                Ok(Some(dlt_core::parse::ParsedMessage::FilteredOut(k))) => pm.push(json!({"v": "filtered", "n": k})),
                Ok(Some(dlt_core::parse::ParsedMessage::Invalid)) => pm.push(json!({"v": "invalid"})),
                Ok(None) => { pm.push(json!({"v": "eos"})); break; }
                Err(_) => { pm.push(json!({"v": "err"})); break; }
            }
        }
        let whole = collect(stream, sh).ok();
        let total: usize = whole.as_ref().map(|i| i.ecu_ids.iter().map(|(_, d)| d.non_log + d.log_fatal + d.log_error + d.log_warning + d.log_info + d.log_debug + d.log_verbose + d.log_invalid).sum()).unwrap_or(usize::MAX);
        json!({"v": "ok", "pm": pm, "stats_total": total})
    }));
    json!({"op": "pipeline", "sh": sh, "stream": proj::bytes(stream), "flt": [proj::filter_config(cfg)], "res": match res { Ok(j) => j, Err(_) => json!({"v": "panic"}) }})
}
pub fn record(mode: &str, seed: u64, n: usize, out: &mut Out) {
    let mut r = Rng::new(seed);
    if mode == "pipeline" {
        for _ in 0..n {
            let sh = r.coin();
            let nm = r.below(6) as usize;
            let mut stream = vec![];
            let mut last = None;
            for _ in 0..nm {
                let m = gen::message(&mut r, &MsgOpts { storage: Some(sh), big: 10, max_args: 2 });
                stream.extend(gen::ser(&m));
                last = Some(m);
            }
            let cfg = crate::slice::random_filter(&mut r, last.as_ref());
            out.calls += 2 + nm as u64;
            out.emit(pipeline_event(&stream, sh, &cfg), nm >= 2);
        }
        return;
    }
    {
        // one long stream with more distinct context ids than fit 16 bits: every message must still be counted under its id
        let n_ids = 66_000usize + r.below(500) as usize;
        let mut stream = Vec::with_capacity(n_ids * 18);
        for i in 0..n_ids {
            stream.extend([0x21u8, i as u8, 0, 18, 0x41, 0, b'A', b'P', b'P', 0]);
            let c = [b'0' + (i % 41) as u8, b'0' + (i / 41 % 41) as u8, b'0' + (i / 1681 % 41) as u8, b'0' + (i / 68921 % 41) as u8];
            stream.extend(c);
            stream.extend([1, 2, 3, 4]);
        }
        let res = catch_unwind(AssertUnwindSafe(|| collect(&stream, false)));
        let sum = |t: &Vec<(String, LevelDistribution)>| -> usize { t.iter().map(|(_, d)| d.non_log + d.log_fatal + d.log_error + d.log_warning + d.log_info + d.log_debug + d.log_verbose + d.log_invalid).sum() };
        let res = match res {
            Ok(Ok(i)) => json!({"v": "ok", "ctx_entries": i.context_ids.len(), "ctx_total": sum(&i.context_ids), "app_entries": i.app_ids.len(), "app_total": sum(&i.app_ids), "ecu_total": sum(&i.ecu_ids)}),
            Ok(Err(_)) => json!({"v": "err"}),
            Err(_) => json!({"v": "panic"}),
        };
        out.calls += 1;
        if mode == "scan" { out.emit(json!({"op": "manyids", "n": n_ids, "res": res}), true); }
    }
    for _ in 0..n {
        let sh = r.coin();
        let nm = r.below(7) as usize;
        // ids from a small pool so that messages share ids
        let pool = ["A", "B", "APP", "", "é", "ECU1", "NONE", "APP ", "A ", " ", "a"];   // incl. ids that differ only in trailing blanks / case
        let mut stream = vec![];
        let mut bounds = vec![];
        for _ in 0..nm {
            let mut m = gen::message(&mut r, &MsgOpts { storage: Some(sh), big: 10, max_args: 2 });
            if let Some(x) = &mut m.extended_header {
                x.application_id = r.pick(&pool).to_string();
                x.context_id = r.pick(&pool).to_string();
                if r.coin() { x.message_type = MessageType::Log(*r.pick(&[LogLevel::Fatal, LogLevel::Error, LogLevel::Warn, LogLevel::Info, LogLevel::Debug, LogLevel::Verbose, LogLevel::Invalid(0), LogLevel::Invalid(9)])); }
                // keep the message well-formed: a log type needs a non-network-trace, non-control payload
                if matches!(m.payload, PayloadContent::NetworkTrace(_)) { x.message_type = MessageType::NetworkTrace(NetworkTraceType::Can); }
                if matches!(m.payload, PayloadContent::ControlMsg(_, _)) { x.message_type = MessageType::Control(ControlType::Response); }
            }
            if m.header.ecu_id.is_some() { m.header.ecu_id = Some(r.pick(&pool).to_string()); }
            // the id changes do not change any length
            let mut b = gen::ser(&m);
            if r.one_in(5) && !b.is_empty() {
                // id fields that are not valid UTF-8 (Latin-1 text, a multi-byte character cut by the field or by a NUL): the id is the
                // valid prefix, the field is still 4 bytes wide
                let bad: [[u8; 4]; 5] = [[b'M', 0xFC, b'1', 0], [0xC3, b'A', 0, 0], [b'a', b'b', 0xE2, 0x82], [0xFF, 0xFF, 0xFF, 0xFF], [b'O', b'K', 0xC3, 0]];
                let o = if sh { 16 } else { 0 };
                let htyp = b[o];
                let std = 4 + 4 * ((htyp >> 2 & 1) + (htyp >> 3 & 1) + (htyp >> 4 & 1)) as usize;
                let mut spots = vec![];
                if sh { spots.push(12); }
                if htyp & 4 != 0 { spots.push(o + 4); }
                if htyp & 1 != 0 { spots.push(o + std + 2); spots.push(o + std + 6); }
                if !spots.is_empty() {
                    let at = spots[r.below(spots.len() as u64) as usize];
                    let pat = bad[r.below(bad.len() as u64) as usize];
                    if at + 4 <= b.len() { b[at..at + 4].copy_from_slice(&pat); }
                }
            }
            // the same message again, byte for byte (an application that logs the same line twice without a counter or a clock):
            // every copy is a message of its own
            let copies = if r.one_in(4) && !b.is_empty() { 1 + r.below(3) as usize } else { 0 };
            for _ in 0..=copies {
                stream.extend(&b);
                bounds.push(stream.len());
            }
        }
        if out.events % 40 == 7 {
            // a message beyond 32 KiB in the stream (legal up to 64 KiB)
            let m = gen::boundary_message(&mut r, Some(sh));
            let b = gen::ser(&m);
            if !b.is_empty() { stream.extend(b); bounds.push(stream.len()); }
        }
        let nm = bounds.len();
        let c1 = r.below(nm as u64 + 1) as usize;
        let c2 = c1 + r.below((nm - c1) as u64 + 1) as usize;
        out.calls += 5;
        let sched = crate::reader::random_sched(&mut r);
        let mut e = stats_event(&stream, sh, &bounds, c1, c2, &sched);
        if mode == "visit14" || mode == "visit19" {
            // the same scan, looked at for one thing only: the header flags (C14) resp. the ids (C19) the visitor is handed
            e["op"] = json!(mode);
            if let Some(o) = e["res"].as_object_mut() { o.remove("result"); o.remove("parts"); o.remove("merged"); }
        }
        out.emit(e, nm >= 2);
    }
}
pub fn rerun(ev: &J) -> J {
    let bounds: Vec<usize> = ev["bounds"].as_array().unwrap().iter().map(|x| x.as_u64().unwrap() as usize).collect();
    stats_event(&unproj::bytes(&ev["stream"]), ev["sh"].as_bool().unwrap(), &bounds, ev["split"][0].as_u64().unwrap() as usize, ev["split"][1].as_u64().unwrap() as usize,
                &crate::reader::sched_of_json(&ev["sched"]))
}

// ---- direction A: the collector driven directly with headers generated by TLC
fn statistic_of<'a>(h: &J, payload: &'a [u8]) -> Statistic<'a> {
    let ext = unproj::opt(&h["ext"]).map(|x| ExtendedHeader { verbose: x["verb"].as_bool().unwrap(), argument_count: 0, message_type: unproj::msg_type(&x["mt"]),
        application_id: unproj::string(&x["ap"]), context_id: unproj::string(&x["ct"]) });
    let level = match ext.as_ref().map(|x| &x.message_type) { Some(MessageType::Log(l)) => Some(*l), _ => None };
    let verbose = ext.as_ref().map(|x| x.verbose).unwrap_or(false);
    Statistic { log_level: level, storage_header: None,
        standard_header: StandardHeader { version: 1, endianness: Endianness::Little, has_extended_header: ext.is_some(), message_counter: 0, ecu_id: unproj::opt(&h["ecu"]).map(unproj::string),
            session_id: None, timestamp: None, payload_length: 0 },
        extended_header: ext, payload, is_verbose: verbose }
}
fn norm_tables(j: &J) -> J {
    // the model prints tables as sets of <<id, counts>>: compare as sorted lists
    let sort = |t: &J| { let mut v: Vec<J> = t.as_array().cloned().unwrap_or_default(); v.sort_by(|a, b| serde_json::to_string(a).unwrap().cmp(&serde_json::to_string(b).unwrap())); J::Array(v) };
    json!({"app": sort(&j["app"]), "ctx": sort(&j["ctx"]), "ecu": sort(&j["ecu"]), "nonverbose": j["nonverbose"]})
}
pub fn replay(_mode: &str, cases: &[J], out: &mut Out) {
    for case in cases {
        let hs = case["hs"].as_array().unwrap();
        let (c1, c2) = (case["c1"].as_u64().unwrap() as usize, case["c2"].as_u64().unwrap() as usize);
        let summarize = |range: std::ops::Range<usize>| -> StatisticInfo {
            let mut c = StatisticInfoCollector::default();
            for h in &hs[range] { c.collect_statistic(statistic_of(h, &[])).unwrap(); }
            c.collect()
        };
        let res = catch_unwind(AssertUnwindSafe(|| {
            let whole = summarize(0..hs.len());
            let parts = vec![summarize(0..c1), summarize(c1..c2), summarize(c2..hs.len())];
            (info(&whole), parts.iter().map(info).collect::<Vec<_>>(), all_merges(&parts))
        }));
        out.calls += hs.len() as u64 * 2 + 18;
        match res {
            Err(_) => out.mismatches.push(json!({"what": "collector", "expected_class": "summary", "observed_class": "panic", "case": case, "expected": case["expect"], "observed": {"v": "panic"}})),
            Ok((whole, parts, merged)) => {
                let want = norm_tables(&case["expect"]["whole"]);
                let mut ok = norm_tables(&whole) == want;
                for (i, p) in parts.iter().enumerate() { ok = ok && norm_tables(p) == norm_tables(&case["expect"]["parts"][i]); }
                let bad_merge = merged.iter().find(|m| norm_tables(m) != want);
                if !ok || bad_merge.is_some() {
                    out.mismatches.push(json!({"what": if ok { "merge" } else { "collect" }, "expected_class": "summary", "observed_class": "other-summary", "case": case,
                        "expected": case["expect"], "observed": {"whole": whole, "parts": parts, "a_wrong_merge": bad_merge}}));
                }
            }
        }
        out.emit(json!({"case": "done"}), hs.len() >= 2);
    }
}
