//! Suite "build": the value-level API - message builder (C15), timestamps (C17), fixed-point conversion (C18).
//! Validated by spec/trace/TraceBuild.tla.
use crate::gen::{self, MsgOpts};
use crate::proj;
use crate::rng::Rng;
use crate::slice;
use crate::unproj;
use crate::Out;
use dlt_core::dlt::*;
use serde_json::{json, Value as J};
use std::panic::{catch_unwind, AssertUnwindSafe};

/// base-1000 limbs of a natural number, obtained textually from its decimal string
pub fn limbs_of_str(s: &str) -> Vec<u32> {
    let mut t = s.trim_start_matches('0').to_string();
    if t.is_empty() {
        return vec![0];
    }
    while t.len() % 3 != 0 {
        t.insert(0, '0');
    }
    t.as_bytes().chunks(3).map(|c| std::str::from_utf8(c).unwrap().parse::<u32>().unwrap()).collect()
}
pub fn limbs_u128(v: u128) -> Vec<u32> {
    limbs_of_str(&v.to_string())
}

pub fn conf_json(c: &MessageConfig) -> J {
    json!({"ver": c.version, "cnt": c.counter, "be": c.endianness == Endianness::Big,
           "ecu": proj::opt(&c.ecu_id, |s| proj::str_bytes(s)), "sid": proj::opt(&c.session_id, |v| proj::bytes(&v.to_be_bytes())),
           "tms": proj::opt(&c.timestamp, |v| proj::bytes(&v.to_be_bytes())), "p": proj::payload(&c.payload),
           "x": proj::opt(&c.extended_header_info, |x| json!({"mt": proj::msg_type(&x.message_type), "ap": proj::str_bytes(&x.app_id), "ct": proj::str_bytes(&x.context_id)}))})
}
pub fn conf_of_json(j: &J) -> MessageConfig {
    MessageConfig {
        version: j["ver"].as_u64().unwrap() as u8,
        counter: j["cnt"].as_u64().unwrap() as u8,
        endianness: unproj::endianness(&j["be"]),
        ecu_id: unproj::opt(&j["ecu"]).map(unproj::string),
        session_id: unproj::opt(&j["sid"]).map(unproj::u32_of),
        timestamp: unproj::opt(&j["tms"]).map(unproj::u32_of),
        payload: unproj::payload(&j["p"]),
        extended_header_info: unproj::opt(&j["x"]).map(|x| ExtendedHeaderConfig { message_type: unproj::msg_type(&x["mt"]), app_id: unproj::string(&x["ap"]), context_id: unproj::string(&x["ct"]) }),
    }
}
/// Message::new -> byte_len -> as_bytes -> add_storage_header(Some(ts)) -> as_bytes -> dlt_message
pub fn build_event(conf: &MessageConfig, secs: u32, us: u32) -> J { build_event_sh(conf, secs, us, None) }
/// `sh0`: the storage header the message is constructed with (add_storage_header then replaces it)
/// a copy of the configuration whose argument / slice vector has spare capacity (Clone gives an exact-capacity vector; a vector grown
/// by push has not): the argument count is the length, never the capacity
fn with_spare(conf: &MessageConfig) -> MessageConfig {
    let mut c = conf.clone();
    match &mut c.payload {
        PayloadContent::Verbose(a) => a.reserve(5 + a.len() % 7),
        PayloadContent::NetworkTrace(sl) => sl.reserve(5 + sl.len() % 7),
        _ => {}
    }
    c
}
pub fn build_event_sh(conf: &MessageConfig, secs: u32, us: u32, sh0: Option<StorageHeader>) -> J {
    let sh0j = proj::opt(&sh0, proj::storage_header);
    let res = match catch_unwind(AssertUnwindSafe(|| {
        let m = Message::new(with_spare(conf), sh0.clone());
        let blen = m.byte_len();
        let bytes = { let mut plain = m.clone(); plain.storage_header = None; plain.as_bytes() };
        let m2 = m.clone().add_storage_header(Some(DltTimeStamp { seconds: secs, microseconds: us }));
        // a second call (with the ECU id of the header changed in between) replaces it again
        let bytes2 = m2.as_bytes();
        let parse = slice::parse_res(&bytes2, None, true, false);
        json!({"v": "ok", "m": proj::message(&m), "blen": blen, "bytes": proj::bytes(&bytes), "m2": proj::message(&m2), "bytes2": proj::bytes(&bytes2), "parse": parse})
    })) {
        Ok(j) => j,
        Err(_) => json!({"v": "panic"}),
    };
    json!({"op": "build", "conf": conf_json(conf), "sh0": sh0j, "ts": {"secs": proj::bytes(&secs.to_be_bytes()), "us": proj::bytes(&us.to_be_bytes())}, "res": res})
}
pub fn arg_event(a: &Argument) -> J {
    // the validity check and the measurements are called separately: for an argument that is not well formed only the outcome of the
    // validity check is stated (measuring or writing such an argument may do anything)
    let valid = catch_unwind(AssertUnwindSafe(|| a.valid()));
    let meas = catch_unwind(AssertUnwindSafe(|| (a.len(), a.as_bytes::<byteorder::BigEndian>().len(), a.as_bytes::<byteorder::LittleEndian>().len())));
    let (mv, len, be, le) = match meas { Ok((l, b, e)) => ("ok", l, b, e), Err(_) => ("panic", 0, 0, 0) };
    let res = match valid {
        Ok(v) => json!({"v": "ok", "valid": v, "m": mv, "len": len, "be": be, "le": le}),
        Err(_) => json!({"v": "panic", "valid": false, "m": mv, "len": len, "be": be, "le": le}),
    };
    json!({"op": "arg", "a": proj::argument(a), "res": res})
}
pub fn ts_event(unit_ms: bool, x: u64) -> J {
    let res = match catch_unwind(|| if unit_ms { DltTimeStamp::from_ms(x) } else { DltTimeStamp::from_us(x) }) {
        Ok(t) => json!({"v": "ok", "secs": limbs_of_str(&t.seconds.to_string()), "us": limbs_of_str(&t.microseconds.to_string())}),
        Err(_) => json!({"v": "panic"}),
    };
    // from_us needs at least two limbs (seconds = the numeral without its last two limbs)
    let mut l = limbs_of_str(&x.to_string());
    while l.len() < 3 {
        l.insert(0, 0);
    }
    json!({"op": if unit_ms { "from_ms" } else { "from_us" }, "limbs": l, "res": res})
}
/// to_real_value; the double-precision product is computed here (TLA+ has no floating point) and logged by class
pub fn real_event(a: &Argument) -> J {
    let (kind, _w, _c, _v, _t) = proj::type_info_parts(&a.type_info);
    let (vtag, vlen, vf): (&str, usize, Option<f64>) = match &a.value {
        Value::I8(v) => ("i", 1, Some(*v as f64)),
        Value::I16(v) => ("i", 2, Some(*v as f64)),
        Value::I32(v) => ("i", 4, Some(*v as f64)),
        Value::I64(v) => ("i", 8, Some(*v as f64)),
        Value::I128(_) => ("i", 16, None),
        Value::U8(v) => ("u", 1, Some(*v as f64)),
        Value::U16(v) => ("u", 2, Some(*v as f64)),
        Value::U32(v) => ("u", 4, Some(*v as f64)),
        Value::U64(v) => ("u", 8, Some(*v as f64)),
        Value::U128(_) => ("u", 16, None),
        Value::Bool(_) => ("bool", 1, None),
        Value::F32(_) => ("f", 4, None),
        Value::F64(_) => ("f", 8, None),
        Value::StringVal(_) => ("str", 0, None),
        Value::Raw(_) => ("raw", 0, None),
    };
    let (prod, off) = match (&a.fixed_point, vf) {
        (Some(fp), Some(v)) => {
            let t = (v * fp.quantization as f64).trunc();
            let prod = if t.is_nan() { json!({"cls": "nan", "limbs": []}) }
                       else if t < 0.0 { json!({"cls": "neg", "limbs": []}) }
                       else if t >= 18446744073709551616.0 { json!({"cls": "big", "limbs": []}) }
                       else { json!({"cls": "num", "limbs": limbs_u128(t as u128)}) };
            let o: i128 = match fp.offset { FixedPointValue::I32(x) => x as i128, FixedPointValue::I64(x) => x as i128 };
            (prod, json!({"neg": o < 0, "limbs": limbs_u128(o.unsigned_abs())}))
        }
        _ => (json!({"cls": "nan", "limbs": []}), json!({"neg": false, "limbs": [0]})),
    };
    let res = match catch_unwind(AssertUnwindSafe(|| a.to_real_value())) {
        Ok(None) => json!({"v": "none"}),
        Ok(Some(r)) => json!({"v": "some", "limbs": limbs_u128(r as u128)}),
        Err(_) => json!({"v": "panic"}),
    };
    json!({"op": "real", "a": proj::argument(a), "shape": {"kind": kind, "hasfp": a.fixed_point.is_some(), "vtag": vtag, "vlen": vlen}, "prod": prod, "off": off, "res": res})
}

fn random_conf(r: &mut Rng, i: usize) -> MessageConfig {
    // start from a well-formed message and turn it into its configuration; sometimes break the pairing payload / message type / extended header
    let big = if i % 30 == 29 { 2000 } else { 20 };
    let m = gen::message(r, &MsgOpts { storage: Some(false), big, max_args: if i % 40 == 39 { 255 } else { 4 } });
    let mut c = MessageConfig {
        version: m.header.version,
        counter: m.header.message_counter,
        endianness: m.header.endianness,
        ecu_id: m.header.ecu_id.clone(),
        session_id: m.header.session_id,
        timestamp: m.header.timestamp,
        // argument / slice vectors with spare capacity (a vector grown by push has one): the count is the length, not the capacity
        payload: match &m.payload {
            PayloadContent::Verbose(a) if i % 2 == 0 => { let mut v = Vec::with_capacity(a.len() + 1 + i % 9); v.extend(a.iter().cloned()); PayloadContent::Verbose(v) }
            PayloadContent::NetworkTrace(sl) if i % 2 == 0 => { let mut v = Vec::with_capacity(sl.len() + 1 + i % 9); v.extend(sl.iter().cloned()); PayloadContent::NetworkTrace(v) }
            p => p.clone(),
        },
        extended_header_info: m.extended_header.as_ref().map(|x| ExtendedHeaderConfig { message_type: x.message_type.clone(), app_id: x.application_id.clone(), context_id: x.context_id.clone() }),
    };
    if i % 25 == 7 {
        // exactly 254 / 255 arguments or slices (NOAR is an 8-bit field)
        let n = if r.coin() { 255 } else { 254 };
        if r.coin() {
            c.payload = PayloadContent::Verbose((0..n).map(|_| Argument { type_info: TypeInfo { kind: TypeInfoKind::Bool, coding: StringCoding::ASCII, has_variable_info: false, has_trace_info: false },
                name: None, unit: None, fixed_point: None, value: Value::Bool(1) }).collect());
            c.extended_header_info = Some(ExtendedHeaderConfig { message_type: MessageType::Log(LogLevel::Info), app_id: "A".into(), context_id: "C".into() });
        } else {
            c.payload = PayloadContent::NetworkTrace((0..n).map(|k| if k % 3 == 1 { vec![] } else { vec![k as u8; 1 + k % 4] }).collect());   // incl. empty slices
            c.extended_header_info = Some(ExtendedHeaderConfig { message_type: MessageType::NetworkTrace(NetworkTraceType::Can), app_id: "A".into(), context_id: "C".into() });
        }
        return c;
    }
    if i % 25 == 13 {
        // the largest payloads that still fit the 16-bit length field with the headers this configuration has
        let hdrs = 4 + 4 * (c.ecu_id.is_some() as usize + c.session_id.is_some() as usize + c.timestamp.is_some() as usize);
        let ext = r.coin();
        let room = 65535 - hdrs - if ext { 10 } else { 0 };
        let plen = room - *r.pick(&[0usize, 1, 2, 9, 10, 11, 22]);
        c.payload = PayloadContent::NonVerbose(r.next() as u32, r.bytes(plen - 4));
        c.extended_header_info = if ext { Some(ExtendedHeaderConfig { message_type: MessageType::Log(LogLevel::Warn), app_id: "A".into(), context_id: "C".into() }) } else { None };
        return c;
    }
    match r.below(12) {
        0 => c.extended_header_info = None,                                                               // any payload kind without extended header
        1 => if let Some(x) = &mut c.extended_header_info { x.message_type = gen::message_type(r, &[]) }, // any message type
        2 => c.version = r.next() as u8,
        _ => {}
    }
    c
}
fn mismatched_arg(r: &mut Rng) -> Argument {
    let mut a = gen::argument(r, 12);
    match r.below(4) {
        0 => { a.type_info.kind = TypeInfoKind::Bool; }
        1 => { a.type_info.kind = TypeInfoKind::Float(*r.pick(&gen::FWIDTHS)); }
        2 => { let k = gen::kind(r); a.value = gen::value_for(r, &k, 8); }
        _ => { a.name = None; }
    }
    a
}

pub fn record(mode: &str, seed: u64, n: usize, out: &mut Out) {
    let mut r = Rng::new(seed);
    match mode {
        "message" => {
            for i in 0..n {
                let c = random_conf(&mut r, i);
                out.calls += 6;
                let sh0 = if i % 4 == 1 { Some(StorageHeader { timestamp: DltTimeStamp { seconds: r.next() as u32, microseconds: r.next() as u32 }, ecu_id: r.pick(&["LOGR", "", "E", "ECU"]).to_string() }) } else { None };
                out.emit(build_event_sh(&c, r.next() as u32, r.next() as u32, sh0), true);
                let big = if r.one_in(20) { 3000 } else { 12 };
                let a = if r.one_in(3) { mismatched_arg(&mut r) } else { gen::argument(&mut r, big) };
                out.calls += 4;
                out.emit(arg_event(&a), true);
            }
        }
        // C01 through the public constructor: parse(Message::new(conf).as_bytes()) = the message built, whole and nothing left
        "roundnew" => {
            for i in 0..n {
                let c = random_conf(&mut r, i);
                out.calls += 3;
                let res = match catch_unwind(AssertUnwindSafe(|| {
                    let m = Message::new(with_spare(&c), None);
                    let b = m.as_bytes();
                    (proj::message(&m), b.clone(), slice::parse_res(&b, None, false, true))
                })) {
                    Ok((m, b, p)) => json!({"v": "ok", "m": m, "bytes": proj::bytes(&b), "parse": p}),
                    Err(_) => json!({"v": "panic"}),
                };
                out.emit(json!({"op": "roundnew", "conf": conf_json(&c), "res": res}), true);
            }
        }
        // extras: add_storage_header(None) stamps the current time
        "stampnow" => {
            for i in 0..n.min(40) {
                let c = random_conf(&mut r, i);
                let now = || std::time::SystemTime::now().duration_since(std::time::UNIX_EPOCH).map(|d| d.as_secs()).unwrap_or(0);
                let before = now();
                let res = catch_unwind(AssertUnwindSafe(|| Message::new(c.clone(), None).add_storage_header(None)));
                let after = now();
                out.calls += 1;
                let res = match res { Ok(m) => { let t = m.storage_header.map(|s| (s.timestamp.seconds as u64, s.timestamp.microseconds)).unwrap_or((0, 0)); json!({"v": "ok", "secs_minus_before": t.0 as i64 - before as i64, "after_minus_secs": after as i64 - t.0 as i64, "us": t.1}) } Err(_) => json!({"v": "panic"}) };
                out.emit(json!({"op": "stampnow", "res": res}), true);
                std::thread::sleep(std::time::Duration::from_millis(37));
            }
        }
        // C02 (writer half, through the public constructor): Message::new(conf).as_bytes() against the layout of the message the
        // configuration describes
        "layout" => {
            for i in 0..n {
                let c = random_conf(&mut r, i);
                out.calls += 2;
                let res = match catch_unwind(AssertUnwindSafe(|| Message::new(with_spare(&c), None).as_bytes())) {
                    Ok(b) => json!({"v": "ok", "bytes": proj::bytes(&b)}),
                    Err(_) => json!({"v": "panic"}),
                };
                out.emit(json!({"op": "layout", "conf": conf_json(&c), "res": res}), true);
            }
        }
        "ts" => {
            let mut inputs: Vec<u64> = vec![0, 1, 999, 1000, 1001, 999_999, 1_000_000, 1_000_001, 1_234_567, 4_294_967, 4_294_968, u32::MAX as u64, u32::MAX as u64 + 1, u64::MAX, u64::MAX - 1, u64::MAX / 1000, u64::MAX / 1_000_000];
            for unit in [1000u64, 1_000_000] {
                let lim = (1u64 << 32) * unit;
                for d in [0u64, 1, 2, unit - 1, unit, unit + 1] {
                    inputs.push(lim.wrapping_sub(d));
                    inputs.push(lim.wrapping_add(d));
                }
                for rem in [4294u64, 4295, 4_294_967 % unit, 4_294_968 % unit, unit - 1, unit / 2, 65535 % unit, 65536 % unit] {
                    inputs.push(7 * unit + rem % unit);
                    inputs.push((u32::MAX as u64) * unit + rem % unit);
                }
            }
            for k in 1..=1100u64 {
                // the last whole seconds below k * 2^32 units, and the values around k * 2^32
                let m = k << 32;
                for unit in [1000u64, 1_000_000] {
                    let s0 = m / unit * unit;
                    for d in [0u64, unit, 2 * unit] { inputs.push(s0.wrapping_sub(d)); inputs.push(s0.wrapping_sub(d) + unit - 1); }
                }
                inputs.push(m); inputs.push(m - 1); inputs.push(m + 1);
            }
            for k in 0..64 { inputs.push(1u64 << k); inputs.push((1u64 << k).wrapping_sub(1)); inputs.push((1u64 << k) + 1); }
            let mut p = 1u64;
            for _ in 0..19 { inputs.push(p); inputs.push(p - 1); inputs.push(p + 1); p = p.saturating_mul(10); }
            for x in inputs.clone() {
                out.calls += 2;
                out.emit(ts_event(true, x), true);
                out.emit(ts_event(false, x), true);
            }
            for _ in 0..n {
                let x = match r.below(4) { 0 => r.next(), 1 => r.next() >> r.below(64), 2 => r.below(1u64 << 42), _ => r.below((1u64 << 32) * 1000) };
                out.calls += 2;
                out.emit(ts_event(true, x), true);
                out.emit(ts_event(false, x), true);
            }
        }
        "real" => {
            let qs = [0.0f32, -0.0, f32::MIN_POSITIVE, -f32::MIN_POSITIVE, 0.01, 0.5, 1.0, 1.5, -1.0, 1e10, 1e20, 1e38, f32::INFINITY, f32::NEG_INFINITY, f32::NAN, 255.0, 1.0 / 3.0];
            let offs = [0i64, 1, -1, 200, -200, i32::MAX as i64, i32::MIN as i64, i64::MAX, i64::MIN, 1 << 40, -(1 << 40)];
            // products at the edges of the domain: 2^63 +- small, 2^64 - small, with offsets that move the sum across 2^63 / 0
            for (val, q) in [(Value::U64(1 << 63), 1.0f32), (Value::I32(1 << 30), 8589934592.0), (Value::U64((1 << 63) + 2048), 1.0), (Value::U64((1 << 63) - 1024), 1.0), (Value::U64(u64::MAX - 2047), 1.0),
                             (Value::U32(1 << 31), 4294967296.0), (Value::I64(i64::MAX), 1.0), (Value::U64(1 << 62), 2.0), (Value::U64(1), 0.5), (Value::I64(-1), 0.5), (Value::I8(-1), 1.0)] {
                for off in [0i64, -1, 1, -200, 200, -2048, -4096, i32::MIN as i64, i32::MAX as i64, i64::MIN, i64::MIN + 1, -i64::MAX, i64::MAX] {
                    for w64 in [false, true] {
                        if !w64 && (off > i32::MAX as i64 || off < i32::MIN as i64) { continue; }
                        let a = Argument { type_info: TypeInfo { kind: TypeInfoKind::UnsignedFixedPoint(if w64 { FloatWidth::Width64 } else { FloatWidth::Width32 }), coding: StringCoding::ASCII, has_variable_info: false, has_trace_info: false },
                            name: None, unit: None, fixed_point: Some(FixedPoint { quantization: q, offset: if w64 { FixedPointValue::I64(off) } else { FixedPointValue::I32(off as i32) } }), value: val.clone() };
                        out.calls += 1;
                        out.emit(real_event(&a), true);
                    }
                }
            }
            for q in [0.01f32, 0.02, 0.7, 0.9, 0.1, 0.3, 0.99, 1.0 / 3.0, 2.0 / 3.0] {
                for v in [10u32, 30, 100, 200, 700, 1000, 10_000, 1_000_000] {
                    for off in [i32::MAX, i32::MAX - 1, 1 << 30, 1 << 28, 1 << 26, (1 << 28) + 1, 1 << 24, 16_777_217] {
                        let a = Argument { type_info: TypeInfo { kind: TypeInfoKind::UnsignedFixedPoint(FloatWidth::Width32), coding: StringCoding::ASCII, has_variable_info: false, has_trace_info: false },
                            name: None, unit: None, fixed_point: Some(FixedPoint { quantization: q, offset: FixedPointValue::I32(off) }), value: Value::U32(v) };
                        out.calls += 1;
                        out.emit(real_event(&a), true);
                    }
                }
            }
            for i in 0..n {
                let mut a = gen::argument(&mut r, 8);
                // bias towards the fixed-point kinds, with every integer width as the carried value
                if i % 4 != 3 {
                    let w64 = r.coin();
                    a.type_info.kind = if r.coin() { TypeInfoKind::SignedFixedPoint(if w64 { FloatWidth::Width64 } else { FloatWidth::Width32 }) } else { TypeInfoKind::UnsignedFixedPoint(if w64 { FloatWidth::Width64 } else { FloatWidth::Width32 }) };
                    let vk = if r.coin() { TypeInfoKind::Signed(*r.pick(&gen::WIDTHS)) } else { TypeInfoKind::Unsigned(*r.pick(&gen::WIDTHS)) };
                    a.value = match r.below(5) {
                        0 => gen::value_for(&mut r, &vk, 8),
                        1 => match vk { TypeInfoKind::Signed(_) => Value::I64(*r.pick(&[0, 1, -1, 1000, i64::MAX, i64::MIN])), _ => Value::U64(*r.pick(&[0, 1, 1000, u64::MAX, 1 << 63, (1 << 63) - 1])) },
                        2 => Value::I32(*r.pick(&[0, 1, -1, 1000, 7785, i32::MAX, i32::MIN])),
                        3 => Value::U8(r.next() as u8),
                        _ => { let k = gen::kind(&mut r); gen::value_for(&mut r, &k, 8) }
                    };
                    let q = if r.coin() { *r.pick(&qs) } else { f32::from_bits(r.next() as u32) };
                    let o = if r.coin() { *r.pick(&offs) } else { r.next() as i64 >> r.below(64) };
                    a.fixed_point = if r.one_in(8) { None } else { Some(FixedPoint { quantization: q, offset: if w64 { FixedPointValue::I64(o) } else { FixedPointValue::I32(o as i32) } }) };
                } else if r.coin() {
                    a.fixed_point = Some(FixedPoint { quantization: 1.0, offset: FixedPointValue::I32(5) });
                }
                out.calls += 1;
                out.emit(real_event(&a), a.fixed_point.is_some());
            }
        }
        _ => panic!("unknown build mode {}", mode),
    }
}

pub fn rerun(ev: &J) -> J {
    match ev["op"].as_str().unwrap_or("") {
        "build" => build_event_sh(&conf_of_json(&ev["conf"]), unproj::u32_of(&ev["ts"]["secs"]), unproj::u32_of(&ev["ts"]["us"]), ev.get("sh0").and_then(|s| unproj::opt(s)).map(unproj::storage_header)),
        "arg" => arg_event(&unproj::argument(&ev["a"])),
        "real" => real_event(&unproj::argument(&ev["a"])),
        "from_ms" | "from_us" => {
            let x = ev["limbs"].as_array().unwrap().iter().fold(0u128, |a, l| a * 1000 + l.as_u64().unwrap() as u128) as u64;
            ts_event(ev["op"] == "from_ms", x)
        }
        _ => json!({"op": "unknown"}),
    }
}

/// direction A
pub fn replay(mode: &str, cases: &[J], out: &mut Out) {
    for case in cases {
        let mode = case.get("mode").and_then(|m| m.as_str()).unwrap_or(mode);
        match mode {
            // {conf, ts, expect: {m, bytes, m2, bytes2, wf}}
            "build" => {
                let conf = conf_of_json(&case["conf"]);
                let e = build_event(&conf, unproj::u32_of(&case["ts"]["secs"]), unproj::u32_of(&case["ts"]["us"]));
                out.calls += 6;
                let (r, x) = (&e["res"], &case["expect"]);
                // fields as the model builds them; the recorded payload length is the one the written bytes have (relative to the
                // crate's own writer - the layout of those bytes is C02's subject)
                let sans = |j: &J| { let mut j = j.clone(); j["h"]["plen"] = json!(0); j };
                let own_plen = r["bytes"].as_array().and_then(|b| b.first().and_then(|h| h.as_u64()).map(|h| {
                    let h = h as usize;
                    b.len() as i64 - (4 + 4 * ((h >> 2 & 1) + (h >> 3 & 1) + (h >> 4 & 1)) + 10 * (h & 1)) as i64
                }));
                // a configuration that describes no well-formed message: only what the statement names (flags and count, the payload itself)
                let named = |a: &J, b: &J| a["h"]["ueh"] == b["h"]["ueh"] && a["p"] == b["p"] && a["x"].get(0).map(|x| (&x["verb"], &x["noar"])) == b["x"].get(0).map(|x| (&x["verb"], &x["noar"]));
                let same = |a: &J, b: &J| if x["wf"] == json!(true) { sans(a) == sans(b) } else { named(a, b) };
                let ok = r["v"] == "ok" && same(&r["m"], &x["m"]) && same(&r["m2"], &x["m2"])
                    && r["m"]["h"]["plen"].as_i64() == own_plen && r["m2"]["h"]["plen"].as_i64() == own_plen
                    && r["blen"] == json!(r["bytes"].as_array().map(|b| b.len()).unwrap_or(0))
                    && r["bytes2"].as_array().map(|b| b.len()) == r["bytes"].as_array().map(|b| b.len() + 16)
                    && (x["wf"] == json!(true) || r["bytes2"].as_array().map(|b| b[..16].to_vec()) == x["storage"].as_array().cloned())
                    && (x["wf"] != json!(true) || (r["parse"]["v"] == "msg" && r["parse"]["m"] == r["m2"]));
                if !ok {
                    out.mismatches.push(json!({"what": "build", "expected_class": "built", "observed_class": r["v"], "case": case, "expected": x, "observed": r}));
                }
                out.emit(json!({"case": "done"}), true);
            }
            // {a, expect: {len, valid_must_fail}}
            "arg" => {
                let a = unproj::argument(&case["a"]);
                let e = arg_event(&a);
                out.calls += 4;
                let r = &e["res"];
                let ok = r["v"] == "ok" && (case["expect"]["wf"] != json!(true) || (r["m"] == "ok" && r["len"] == r["be"] && r["len"] == r["le"])) && (case["expect"]["invalid"] != json!(true) || r["valid"] == json!(false));
                if !ok {
                    out.mismatches.push(json!({"what": "arg", "expected_class": "len=be=le", "observed_class": r["v"], "case": case, "expected": case["expect"], "observed": r}));
                }
                out.emit(json!({"case": "done"}), true);
            }
            // {ev: {op, limbs}, expect: {secs, us}} (inputs whose seconds fit 32 bits)
            "ts" => {
                let e = rerun(&case["ev"]);
                out.calls += 1;
                let strip = |j: &J| -> Vec<u64> { let v: Vec<u64> = j.as_array().map(|a| a.iter().map(|x| x.as_u64().unwrap()).collect()).unwrap_or_default(); v.into_iter().skip_while(|x| *x == 0).collect() };
                let ok = e["res"]["v"] == "ok" && strip(&e["res"]["secs"]) == strip(&case["expect"]["secs"]) && strip(&e["res"]["us"]) == strip(&case["expect"]["us"]);
                if !ok {
                    out.mismatches.push(json!({"what": case["ev"]["op"], "expected_class": "ts", "observed_class": e["res"]["v"], "case": case, "expected": case["expect"], "observed": e["res"]}));
                }
                out.emit(json!({"case": "done"}), true);
            }
            // {a, expect: {v: none | some | some-any, limbs}}
            "real" => {
                let a = unproj::argument(&case["a"]);
                let e = real_event(&a);
                out.calls += 1;
                let strip = |j: &J| -> Vec<u64> { let v: Vec<u64> = j.as_array().map(|a| a.iter().map(|x| x.as_u64().unwrap()).collect()).unwrap_or_default(); v.into_iter().skip_while(|x| *x == 0).collect() };
                let (r, x) = (&e["res"], &case["expect"]);
                let ok = match x["v"].as_str().unwrap() {
                    "none" => r["v"] == "none",
                    "some" => r["v"] == "some" && strip(&r["limbs"]) == strip(&x["limbs"]),
                    _ => r["v"] == "some" || r["v"] == "none",     // outside the stated domain: any value or nothing, only no panic
                };
                if !ok {
                    out.mismatches.push(json!({"what": "to_real_value", "expected_class": x["v"], "observed_class": r["v"], "case": case, "expected": x, "observed": r}));
                }
                out.emit(json!({"case": "done"}), true);
            }
            _ => panic!("unknown build replay mode {}", mode),
        }
    }
}
