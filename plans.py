"""Per-property plans for ./check: which bounded instances TLC model-checks, which of them generate replay
cases (direction A), which drivers record traces and which trace specification validates them (direction B)."""


def mc(name, module, quick, thorough, replay=None, workers=10, simulate=None, timeout=None, heap="8g"):
    d = dict(kind="mc", name=name, module=module, cfg={"quick": quick, "thorough": thorough}, replay=replay, workers=workers, simulate=simulate, heap=heap)
    if timeout:
        d["timeout"] = timeout
    return d


def rec(suite, mode, trace, nq, nt, shq=2, sht=8, salt=0, args=None, shard_args=False):
    return dict(kind="record", suite=suite, mode=mode, trace=trace, n={"quick": nq, "thorough": nt}, shards={"quick": shq, "thorough": sht}, salt=salt, args=args or [],
                shard_args=shard_args)


def ti_sweep(ctx):
    """C14: the reserved type-info bits 18..31 - decode ignores them, encode writes zero - against the code's own result for the low 18 bits"""
    import json as _json
    per_low = 1024 if ctx["tier"] == "quick" else 0
    out = ctx["dltv"](["sweep", "--per-low", str(per_low), "--threads", "16", "--seed", str(ctx["seed"])], timeout=1500)
    res = _json.loads(out.strip().splitlines()[-1])
    dis = [dict(cls={"suite": "codes", "op": "ti-reserved-bits", "model": "same as low 18 bits", "code": "differs", "api": ""},
                item={"op": "ti", "w": [(w >> 24) & 255, (w >> 16) & 255, (w >> 8) & 255, w & 255]}, source="reserved-bit sweep") for w in res["bad"]]
    return dict(calls=res["checked"], nontrivial=res["checked"], distinct_nontrivial=res["checked"], disagreements=dis,
                notes=["reserved-bit sweep: %d words (%s) compared with the code's own result for their low 18 bits"
                       % (res["checked"], "all 2^32" if per_low == 0 else "2^18 low words x %d seeded settings of bits 18..31" % per_low)])


def tlaps_timestamps(ctx):
    """C17, thorough tier and extras: the unbounded arithmetic identities behind the numeral formulation, proved by TLAPS (SMT back end).
    A supplement to the bounded instances and the conformance run, not a replacement: it says nothing about the code."""
    import os as _os, subprocess as _sp, shutil as _sh
    if ctx["tier"] == "quick" and not ctx.get("always"):
        return dict(calls=0, nontrivial=0, distinct_nontrivial=0, disagreements=[], notes=[])
    d = _os.path.join(ctx["SPEC"], "proofs")
    _sh.rmtree(_os.path.join(d, ".tlacache"), ignore_errors=True)
    p = _sp.run(["timeout", "600", "tlapm", "--threads", "4", "--cleanfp", "TimestampArith.tla"], cwd=d, stdout=_sp.PIPE, stderr=_sp.STDOUT, text=True)
    _sh.rmtree(_os.path.join(d, ".tlacache"), ignore_errors=True)
    import re as _re
    m = _re.search(r"All (\d+) obligations? proved", p.stdout)
    if not m:
        raise ctx["ToolError"]("tlapm did not prove spec/proofs/TimestampArith.tla:\n" + p.stdout[-1500:])
    return dict(calls=0, nontrivial=0, distinct_nontrivial=0, disagreements=[],
                notes=["TLAPS: %s obligations of spec/proofs/TimestampArith.tla proved (FromMsDenotes, FromUsDenotes, SameInstant over all naturals)" % m.group(1)])


def tlaps_timestamps_always(ctx):
    return tlaps_timestamps(dict(ctx, always=True))


SLICE_RULE = ("direction A: every state of the TLC builder machine is one case; direction B: seeded random / mutated / boundary-aimed inputs. "
              "An event is non-trivial when its input reaches past the fixed headers (>= 4 bytes after an optional storage header) "
              "and distinct by the hash of its full JSON line (input and result).")

PLANS = {
    "_trace_of_suite": {"slice": "TraceSlice", "build": "TraceBuild", "codes": "TraceCodes", "reader": "TraceReader", "stats": "TraceStats", "fibex": "TraceFibex"},
    "C01": dict(
        sany=["DltCodec.tla", "mc/MCCodec.tla", "trace/TraceSlice.tla", "trace/TraceBuild.tla"],
        steps=[
            mc("codec", "MCCodec", "MCCodec_quick.cfg", "MCCodec_thorough.cfg", replay=("slice", "round")),
            rec("slice", "round", "TraceSlice", 1500, 40000, 3, 10),
            rec("build", "roundnew", "TraceBuild", 1200, 30000, 1, 4),
        ],
        rule=SLICE_RULE,
        explanation="MC: theorem RoundTrip (decode(encode m ++ suffix) = (m, Len)) of the reference codec on every message of the builder machine "
                    "(19 kind/width variants x VARI x TRAI x SCOD x empty names, pairs of arguments, 64 header-flag combinations in the thorough tier, 5 suffixes). "
                    "A: each message replayed: Message -> as_bytes = reference bytes; dlt_message(bytes ++ suffix) = (same message, rest = suffix) for 5 suffixes. "
                    "B: random well-formed messages (full-range values, up to 255 arguments, long strings, all payload kinds, both byte orders) serialised and "
                    "parsed by the crate with 7 trailing byte strings; TLC checks WellFormed(m), bytes = EncMessage(m), every result = (m, Len(bytes)), rest = suffix.",
    ),
    "C02": dict(
        sany=["DltCodec.tla", "mc/MCMutate.tla", "trace/TraceSlice.tla", "trace/TraceBuild.tla"],
        steps=[
            mc("mutate", "MCMutate", "MCMutate_quick.cfg", "MCMutate_thorough.cfg", replay=("slice", "verdict"), workers=12),
            mc("codec", "MCCodec", "MCCodec_quick.cfg", "MCCodec_thorough.cfg", replay=("slice", "enc")),
            mc("session", "MCSession", "MCSession_quick.cfg", "MCSession_thorough.cfg", replay=("slice", "session", "@parser")),
            mc("junk", "MCJunk", "MCJunk_quick.cfg", "MCJunk_thorough.cfg", replay=("slice", "verdict", "verdict,@parser")),
            rec("slice", "mut", "TraceSlice", 1200, 30000, 3, 10),
            rec("build", "layout", "TraceBuild", 1500, 40000, 1, 4),
        ],
        rule=SLICE_RULE,
        explanation="The specification IS the independent codec (written from the layout, encode and decode halves separately, reconciled by TLC). "
                    "MC: the decoder is total and three-valued on the mutation universe (length field at every guard +-1, every bit of HTYP / MSIN / type-info, "
                    "zeroed length prefixes, other storage mode, truncation, duplication) and the hand-written dialect instances decode as stated. "
                    "A: every mutant replayed through dlt_message and compared with the reference verdict (class, consumed length, every field); every builder "
                    "message serialised by the crate and compared byte for byte with EncMessage. B: random messages, 3-6 byte-level mutants each in both "
                    "storage-header modes, and 14 dialect encodings per iteration; TLC recomputes every verdict.",
    ),
    "C03": dict(
        sany=["DltCodec.tla", "trace/TraceSlice.tla"],
        steps=[
            mc("mutate", "MCMutate", "MCMutate_quick.cfg", "MCMutate_thorough.cfg", replay=("slice", "nopanic"), workers=12),
            rec("slice", "hostile", "TraceSlice", 60, 2000, 3, 10),
        ],
        rule=SLICE_RULE,
        explanation="The outcome alphabet of every trace action is {msg, filtered, inc, rej, none, skipped, found, ok, err}: `panic` (caught by catch_unwind; the harness "
                    "is built with overflow-checks and debug-assertions) is not producible by the specification, so one panicking call rejects the trace. Inputs are aimed "
                    "by the model's guards: cuts at every length comparison +-1, declared lengths around the header sizes, NOAR extremes, MSIN flips, >64 KiB buffers, "
                    "65535-byte names and strings, all-0xFF; every entry point named in the property is driven on each input, and every returned message is re-serialised "
                    "and measured (as_bytes, byte_len, Argument::len / valid / as_bytes in both orders). Model-guided exploration, not a proof of panic freedom.",
    ),
    "C04": dict(
        sany=["SliceSession.tla", "mc/MCSession.tla", "trace/TraceSlice.tla"],
        steps=[
            mc("session", "MCSession", "MCSession_quick.cfg", "MCSession_thorough.cfg", replay=("slice", "frames")),
            mc("mutate", "MCMutate", "MCMutate_quick.cfg", "MCMutate_thorough.cfg", replay=("slice", "frame"), workers=12),
            rec("slice", "session", "TraceSlice", 1000, 30000, 2, 8),
        ],
        rule=SLICE_RULE + " Sessions are non-trivial when they make at least two calls.",
        explanation="MC: SliceSession over buffers of up to 2 (quick) / 3 (thorough) pieces from 10 tiny templates (incl. arguments shorter / longer than the declared payload, "
                    "NOAR too large / small, declared length below the headers) and junk, every sequence of Parse(filter in 5 configs) / Consume: Progress (action property), "
                    "InBuffer, Aligned (cursor is always a boundary given by the length fields), FilterIndependentCursor, ParseConsumeAgree; MCMutate adds Consumption "
                    "(consumed = offset + declared length) on every mutant. A: every buffer x filter replayed as a whole repeat-until-error loop, every step compared. "
                    "B: random streams with corrupted payload encodings and junk, stepped by the real functions; TLC recomputes every cursor.",
    ),
    "C05": dict(
        sany=["DltCodec.tla", "mc/MCCodec.tla", "trace/TraceSlice.tla"],
        steps=[
            mc("codec", "MCCodec", "MCCodec_quick.cfg", "MCCodec_thorough.cfg", replay=("slice", "prefix")),
            rec("slice", "prefix", "TraceSlice", 500, 40000, 2, 10),
        ],
        rule=SLICE_RULE + " One event / case = all cuts of one message.",
        explanation="MC: theorem PrefixIncomplete on every builder message: every proper prefix decodes to `inc`; the skipper gives `none` on empty input and `inc` on every other "
                    "proper prefix. A: every cut of every builder message through dlt_message and dlt_consume_msg: class `inc`, hint in 1..missing. "
                    "B: random larger messages (cuts inside 128-bit values, length prefixes, storage header), all cuts in one event, validated by TLC incl. the hint bound.",
    ),
    "C06": dict(
        sany=["SliceSession.tla", "mc/MCJunk.tla", "trace/TraceSlice.tla"],
        steps=[
            mc("junk", "MCJunk", "MCJunk_quick.cfg", "MCJunk_thorough.cfg", replay=("slice", "search", "search,junk")),
            mc("session", "MCSession", "MCSession_quick.cfg", "MCSession_thorough.cfg"),
            rec("slice", "junk", "TraceSlice", 1000, 100000, 2, 12),
        ],
        rule=SLICE_RULE,
        explanation="MC: all junk strings over {D, L, T, 0x01, X} up to length 5 (quick, 3906) / 7 (thorough, 97656): the search equals the declarative least occurrence, "
                    "junk ++ message parses like the message alone, and junk msg junk msg junk is recovered completely and in order. A: all of them replayed "
                    "(search, parse, skip). B: random junk between random messages; sessions over streams with junk.",
        exhaustive={"quick": False, "thorough": False},
    ),
    "C09": dict(
        sany=["DltFilter.tla", "mc/MCFilter.tla", "trace/TraceSlice.tla"],
        steps=[
            mc("filter", "MCFilter", "MCFilter_quick.cfg", "MCFilter_thorough.cfg", replay=("slice", "filter"), workers=12),
            mc("session", "MCSession", "MCSession_quick.cfg", "MCSession_thorough.cfg"),
            rec("slice", "filter", "TraceSlice", 1000, 150000, 2, 12),
        ],
        rule=SLICE_RULE,
        explanation="MC: DroppedOp (decision procedure in the parser's order) = Dropped (declarative rule of the statement) for every numeric level (quick: 0,1,3,6,7,255; thorough: "
                    "all 256) x all 128 MSTP/MTIN codes, and for every combination of app/ctx/ecu lists (absent, empty, one, two, duplicate) x declared counts x messages with / "
                    "without extended header and ECU id; OutOfRangeLevelsIgnored; FilterOnlyReplaces (filtered marker carries the payload length and the same consumption, kept "
                    "messages identical). A: every (config, message) pair through DltFilterConfig -> ProcessedDltFilterConfig -> dlt_message. B: random configs (ids drawn "
                    "from the message) x random messages, both From conversions compared.",
    ),
    "C13": dict(
        sany=["DltCodec.tla", "mc/MCConstruct.tla", "trace/TraceSlice.tla"],
        steps=[
            mc("construct", "MCConstruct", "MCConstruct_quick.cfg", "MCConstruct_thorough.cfg", replay=("slice", "verdict")),
            rec("slice", "construct", "TraceSlice", 1500, 200000, 2, 12),
        ],
        rule=SLICE_RULE,
        explanation="MC: all type lists of length <= 2 (quick) / 3 (thorough) over the 16 supported signal types x both byte orders: the exact payload decodes to one argument per "
                    "type, in order, with independently written expected values; trailing bytes ignored; every proper prefix refused; invalid UTF-8 refused; fixed-point kinds "
                    "are outside the property (any non-panicking result). A: all of them replayed. B: random lists up to 20 types, full-range values, mutated payloads, wrong byte order.",
    ),
    "C16": dict(
        sany=["DltCodec.tla", "mc/MCMutate.tla", "trace/TraceSlice.tla"],
        steps=[
            mc("mutate", "MCMutate", "MCMutate_quick.cfg", "MCMutate_thorough.cfg", replay=("slice", "stable"), workers=12),
            rec("slice", "stable", "TraceSlice", 700, 20000, 3, 10),
        ],
        rule=SLICE_RULE,
        explanation="MC: theorem StableThm on every mutant the reference decoder accepts (parser outputs outside the writer's range: reserved codings, unknown message types, odd "
                    "type-info bits, NUL-cut strings, left-over payload bytes). B (primary): every message the real parser returns on canonical, mutated and dialect input is "
                    "chained parse -> as_bytes -> parse -> as_bytes; TLC checks as_bytes = EncMessage, and whenever the re-serialisation has its declared length: identical "
                    "message, nothing left over, identical bytes.",
    ),
    "C19": dict(
        sany=["DltCodec.tla", "mc/MCZStr.tla", "trace/TraceSlice.tla", "trace/TraceStats.tla"],
        steps=[
            mc("zstr", "MCZStr", "MCZStr_quick.cfg", "MCZStr_thorough.cfg", replay=("slice", "verdict")),
            rec("slice", "zstr", "TraceSlice", 2000, 400000, 2, 12),
            rec("stats", "visit19", "TraceStats", 300, 8000, 1, 4),
        ],
        rule=SLICE_RULE,
        explanation="MC: all byte strings of length <= 4 (quick, 11 111) / 5 (thorough, 111 111) over {NUL, 'A', and the bytes of complete / incomplete 2-, 3-, 4-byte UTF-8 "
                    "sequences, 0xFF} x all sizes: ZStr = the declarative rule (consumes size; longest valid-UTF-8 prefix of the bytes before the first NUL), the UTF-8 automaton "
                    "= the declarative well-formedness table, and the ids of a message obey the same rule. A: all replayed through dlt_zero_terminated_string and dlt_message. "
                    "B: random long strings, sizes up to 65535, multi-byte sequences cut by the size limit and by NULs.",
    ),
    "C15": dict(
        sany=["DltBuild.tla", "trace/TraceBuild.tla"],
        steps=[
            mc("build", "MCBuild", "MCBuild_quick.cfg", "MCBuild_thorough.cfg", replay=("build", "build")),
            rec("build", "message", "TraceBuild", 1500, 40000, 2, 8),
        ],
        rule="seeded random message configurations (every payload kind, optional fields, extended header present / absent, deliberately mismatched pairings) and arguments "
             "(well-formed and kind/value mismatches); every event is non-trivial; distinct by the hash of its JSON line",
        explanation="MC: the builder as a machine New -> AddStorage -> AsBytes -> Parse over 13 248 configurations (2^4 optional-field combinations x no / 8 extended-header message "
                    "types x 93 payloads incl. every argument kind, pairs, all payload kinds): LengthsAgree, StorageOnlyPrepends, ParsesBack (whenever the built message is well-formed), "
                    "WellFormedIff (which pairings of payload kind, extended header and message type are self-consistent), ArgLaws (length independent of byte order; validity). "
                    "A: every configuration through Message::new, byte_len, as_bytes, add_storage_header(Some(ts)), as_bytes, dlt_message, compared field by field; 456 + 114 arguments "
                    "through Argument::len / as_bytes (both orders) / valid. B: random configurations (up to 255 arguments, long strings, mismatched pairings, versions > 7) and arguments.",
    ),
    "C17": dict(
        sany=["DltBuild.tla", "trace/TraceBuild.tla"],
        steps=[
            mc("numeric", "MCNumeric", "MCNumeric_quick.cfg", "MCNumeric_thorough.cfg", replay=("build", "ts", "ts")),
            rec("build", "ts", "TraceBuild", 1500, 1500000, 2, 12),
            dict(kind="custom", fn=tlaps_timestamps),
        ],
        rule="boundary inputs (0, unit +-1, 2^32*unit +-1, powers of two and ten +-1, remainders that overflow a 32-bit product) and seeded random u64; distinct by the hash of the JSON line",
        explanation="The model is two lines (drop the last limb(s) of the base-1000 numeral of the input, obtained textually from its decimal string); its value is an independent statement "
                    "for inputs nobody calls today. MC: numeral arithmetic = TLC integers where both exist; SameInstantMs / SameInstantUs (secs*10^6 + us = input in us, us < 10^6) for all "
                    "numerals that fit TLC. A: 24 336 generated inputs replayed. B: boundaries (0, unit +-1, 2^32*unit +-1, powers of two / ten +-1, remainders that overflow a 32-bit "
                    "product) and random u64 through from_ms and from_us; TLC checks seconds, microseconds and the < 10^6 bound whenever the seconds fit 32 bits.",
    ),
    "C18": dict(
        sany=["DltBuild.tla", "trace/TraceBuild.tla"],
        steps=[
            mc("numeric", "MCNumeric", "MCNumeric_quick.cfg", "MCNumeric_thorough.cfg", replay=("build", "real", "real")),
            rec("build", "real", "TraceBuild", 3000, 1500000, 2, 12),
        ],
        rule="seeded random arguments biased to the fixed-point kinds: every integer width as carried value, quantizations incl. 0, tiny, NaN, +-inf, negative, random bit patterns, "
             "offsets incl. 0, +-1, +-200, i32/i64 min/max, random; non-trivial = fixed-point data present; distinct by the hash of the JSON line",
        explanation="TLA+ has no floating point: the double-precision product (value as f64 * quantization as f64, truncated) is computed by the driver and logged by class "
                    "(num with its numeral / neg / nan / >= 2^64); the specification decides the case analysis (nothing unless fixed-point kind AND fixed-point data AND 8..64-bit "
                    "integer value), the 64-bit sum on numerals, the domain 0..2^63 and the absence of panics. MC: CaseAnalysis over 576 shapes x 4 product classes x offset sign, "
                    "Boundary (2^63-1, negative sums). A: 3 000 generated arguments with quantization 1.0 replayed with their expected value. B: all integer widths x quantizations "
                    "{0, tiny, 0.01, 1, 1.5, 1e10, +-inf, NaN, random bits} x offsets {0, +-1, +-200, i32/i64 min/max, random}.",
    ),
    "C14": dict(
        sany=["DltCodes.tla", "mc/MCCodes.tla", "trace/TraceCodes.tla", "trace/TraceStats.tla"],
        steps=[
            mc("codes", "MCCodes", "MCCodes_quick.cfg", "MCCodes_thorough.cfg"),
            rec("codes", "bytes", "TraceCodes", 1, 1, 1, 1),
            rec("codes", "ti", "TraceCodes", 0, 3, 8, 12, shard_args=True),
            dict(kind="custom", fn=ti_sweep),
            rec("stats", "visit14", "TraceStats", 300, 8000, 1, 4),
        ],
        rule="exhaustive: every HTYP byte, every MSIN byte, every type-info word over the defined bits 0..17 (2^18) is one event (thorough: plus 3 seeded settings of the reserved bits "
             "each); the reserved-bit sweep counts one evaluation per word; every input is distinct by construction",
        exhaustive={"quick": False, "thorough": True},
        require={"msin-leg1:msg": 128, "msin-leg2:msg": 128, "tipair-leg:ok": 400},     # the conditional parser legs must be taken (vacuity guard)
        explanation="MC (exhaustive): all 256 HTYP and MSIN bytes (encode o decode = id, field ranges) and all 2^18 type-info words over the defined bits: AcceptRule (operational decode "
                    "accepts exactly the words naming one supported kind with a supported width) and ReencodeLaws (the encoding decodes to the same description, differs from the word "
                    "only in bits unused for that kind, canonical words are fixed points). B (exhaustive on the code side): every HTYP byte through dlt_message / header_type_byte, "
                    "every MSIN byte through MessageType::try_from / u8::from and through parser + writer, every one of the 2^18 words through TypeInfo::try_from / as_bytes in both "
                    "orders / try_from again; TLC validates each line against the statement's laws. The 14 reserved bits: one congruence (decode ignores them, encode writes zero), "
                    "swept on the code side against the code's own result for the low 18 bits - quick: 2^18 x 1024 seeded settings, thorough: all 2^32 words.",
    ),
    "C07": dict(
        sany=["Reader.tla", "mc/MCReader.tla", "mc/MCReaderSim.tla", "trace/TraceReader.tla"],
        steps=[
            mc("reader", "MCReader", "MCReader_quick.cfg", "MCReader_thorough.cfg"),
            mc("readersim", "MCReaderSim", "MCReaderSim.cfg", "MCReaderSim.cfg", replay=("reader", "blocking"), workers=4, simulate={"quick": "num=3000", "thorough": "num=100000"}),
            rec("reader", "blocking", "TraceReader", 1500, 40000, 3, 10),
        ],
        rule="direction A: one case per simulated behaviour of the Reader machine (stream from the model's family, schedule of short reads / interruptions); direction B: seeded random "
             "streams (well-formed, truncated, garbage-tailed, hostile lengths 0..3, maximal declared length) x random schedules (1-byte, heavy interruption, unlimited, mixed) plus "
             "systematic 1-, 2-partitions; a session is non-trivial with >= 2 source reads; distinct by the hash of the JSON line",
        explanation="MC (exhaustive, no history variable): the Reader machine over 102 streams (3 messages with / without storage header truncated at every byte, declared lengths 0..3, "
                    "arbitrary bytes): every partition of the stream into read results and every placement of Interrupted: Safe (delivered = prefix of the stream cut at the declared "
                    "lengths), AtEnd (all complete messages delivered; a tail ends in eos or err, never a message), EndIsDetermined, and the temporal property Terminates under weak "
                    "fairness of the progressing actions. A: simulated schedules replayed through a scripted Read into DltMessageReader. B: recorded sessions of next_message_slice "
                    "and read_message (with filters) over scripted sources; TLC checks lengths = Cut(stream), identical content, allowed ending, read_message = parse of each piece, "
                    "and reports (without alarm) any log the machine cannot explain.",
    ),
    "C08": dict(
        sany=["Reader.tla", "mc/MCReader.tla", "mc/MCReaderSim.tla", "trace/TraceReader.tla"],
        steps=[
            mc("reader", "MCReader", "MCReader_quick.cfg", "MCReader_thorough.cfg"),
            mc("readersim", "MCReaderSim", "MCReaderSim.cfg", "MCReaderSim.cfg", replay=("reader", "pair"), workers=4, simulate={"quick": "num=3000", "thorough": "num=100000"}),
            rec("reader", "pair", "TraceReader", 1800, 45000, 3, 10),
        ],
        rule="as C07, each stream and schedule run through both readers (Poll::Pending where the blocking source returns Interrupted)",
        explanation="The async reader is the blocking machine with the retry action named Pending, so the exhaustive exploration of MCReader (every partition, every placement of "
                    "retries, Terminates under fairness that excludes infinite Pending) covers it. A: each simulated schedule is run through both real readers and the delivered "
                    "sequences and terminal classes compared. B: pair events (both readers, next_message_slice and read_message, same bytes and schedule): TLC checks equal deliveries, "
                    "equal terminal class, identical content, no panic. (That the asynchronous reader on its own also cuts the stream at the declared lengths - C07's relation for the other reader - is validated in `./check extras`, not here: C08 only compares the two readers.)",
    ),
    "C10": dict(
        sany=["Stats.tla", "mc/MCStats.tla", "trace/TraceStats.tla"],
        steps=[
            mc("stats", "MCStats", "MCStats_quick.cfg", "MCStats_thorough.cfg", replay=("stats", "collector")),
            rec("stats", "scan", "TraceStats", 1200, 30000, 3, 10),
        ],
        rule="direction A: every stream of up to 3 (quick) / 4 (thorough) messages over 11 representative headers x every split into up to 3 parts; direction B: seeded random "
             "well-formed streams of 0..6 messages with ids from a small pool (so that ids are shared), random split; non-trivial = at least 2 messages; distinct by the JSON line",
        explanation="MC: the collector machine over all streams of <= 3 / <= 4 messages drawn from 11 headers that cover every bucket (all six levels, invalid level 0 and 9, control, "
                    "network trace, no extended header), the NONE ECU, id sharing and the verbose flag; every split into <= 3 parts at message boundaries; every order and direction of "
                    "merging: EqualsTally (collector = independent count), Conservation (ECU totals = number of messages), MergeIsSum, PartsConserve. A: every stream x split driven "
                    "into the real StatisticInfoCollector (collect_statistic per header, collect()), parts compared, then merged in all 18 orders / groupings (left-nested, right-nested, "
                    "into a fresh summary) and compared with the whole. B: collect_statistics over the real reader with a recording collector (each visit = the header decode of the "
                    "corresponding piece of the stream, once each, in order; level / verbose / payload length / storage header) and with the standard collector (= Tally of the visits, "
                    "ECU totals, all merges of a random 3-split = the whole); order-free comparison, no duplicate ids.",
    ),
    "C11": dict(
        sany=["Fibex.tla", "FibexModel.tla", "mc/MCFibex.tla", "trace/TraceFibex.tla"],
        steps=[
            mc("fibex", "MCFibex", "MCFibex_quick.cfg", "MCFibex_thorough.cfg", replay=("fibex", "load"), workers=12, timeout={"quick": 600, "thorough": 6000}, heap="16g"),
            rec("fibex", "models", "TraceFibex", 600, 20000, 2, 8),
        ],
        rule="direction A: one case per (abstract model, layout) of the bounded instance; direction B: seeded random abstract models (1-4 PDUs with up to 5 signal instances, 1-3 "
             "frames, duplicated ids, unknown references, custom signals and codings over the whole vocabulary, multi-digit sequence numbers) rendered with random child / section / "
             "file order, white space and namespace prefix; every document is non-trivial (>= 1 PDU and >= 1 frame); distinct by the hash of the JSON line",
        explanation="MC: the loader machine (one read_event per step, shared registers, open-element stack, the three loops, map assembly) run on Render(model, layout) for every "
                    "abstract model x layout of the instance - quick: 674 models (whole vocabulary: 17 standard names, 17 base types; duplicates, unknown refs, ties, numeric order) "
                    "x 12 layouts (every child order, instance order, section order and file split occurs); thorough: 11 554 models x 288 layouts: LoadIsIntended (machine result = the declarative Intended(model) written from the statement) and "
                    "LookupIsIntended (extract_metadata with and without extended header, present / absent ids). A: every rendering printed to XML files, loaded with "
                    "gather_fibex_data in a child process, compared with Intended(model). B: random larger models rendered by the driver; TLC checks result = Intended(model), the "
                    "9 lookups, and (sanity of the driver's renderer) that the machine run on the driver's tokens also gives Intended(model).",
    ),
    "C12": dict(
        sany=["Fibex.tla", "FibexModel.tla", "mc/MCFibex.tla", "trace/TraceFibex.tla"],
        steps=[
            mc("fibexdamage", "MCFibex", "MCFibexDamage_quick.cfg", "MCFibexDamage_thorough.cfg", replay=("fibex", "damaged"), workers=12, timeout={"quick": 600, "thorough": 6000}, heap="16g"),
            rec("fibex", "damage", "TraceFibex", 300, 6000, 2, 8),
        ],
        rule="direction A: every token-boundary truncation, single token deletion and attribute deletion of every document of the damage instance; direction B: token-level damage, "
             "byte-level truncation / corruption / deletion of printed documents, the repository's two sample documents truncated at seeded strides, missing / empty / no paths; "
             "loads run in a child process under a 5 s watchdog; distinct by the hash of the JSON line (byte-level events carry a digest of the file)",
        explanation="MC: temporal property Terminated ([](started => <>(model or refused))) of the loader machine stepped token by token, under weak fairness, over Damage(Render(model, "
                    "layout)): every truncation at a token boundary, every single token deletion, every attribute deletion of every document of the instance (quick: 3 952 damaged "
                    "documents, 43 303 states). With EofRefuses = FALSE (the code as found before its repair) TLC reports the property violated (MCFibexDamage_asfound.cfg). "
                    "A: every damaged token stream printed and loaded in a child process under a watchdog: a timeout or a panic is a violation (the machine's outcome is compared "
                    "too and reported as drift, not as a violation). B: damage below the model's abstraction - byte truncation, corruption, deletion - where the oracle is termination "
                    "without panic only.",
    ),
    # not a listed property: growth of the specification beyond the list (DESIGN section 10); run with ./check extras
    "_extras": dict(
        sany=["DltMisc.tla", "NvDecode.tla", "mc/MCDecode.tla", "mc/MCJunk.tla", "mc/MCSession.tla", "trace/TraceCodes.tla", "trace/TraceStats.tla", "trace/TraceDecode.tla", "trace/TraceReader.tla", "trace/TraceBuild.tla",
              "FilterJson.tla", "mc/MCFilterJson.tla", "trace/TraceFilterCfg.tla"],
        steps=[
            rec("codes", "misc", "TraceCodes", 300, 5000, 1, 2),
            # the filter configuration as a JSON document (feature `serialization`): read_filter_options, the text serde writes, the conversion
            rec("filtercfg", "json", "TraceFilterCfg", 1500, 30000, 1, 4),
            mc("filterjson", "MCFilterJson", "MCFilterJson.cfg", "MCFilterJson.cfg", replay=("filtercfg", "filterjson")),
            rec("stats", "pipeline", "TraceStats", 600, 20000, 2, 8),
            rec("fibex", "decode", "TraceDecode", 200, 4000, 2, 8),
            rec("reader", "cont", "TraceReader", 400, 8000, 2, 8),
            rec("reader", "async", "TraceReader", 500, 10000, 1, 4, salt=11),
            rec("build", "stampnow", "TraceBuild", 20, 40, 1, 1),
            mc("decode", "MCDecode", "MCDecode.cfg", "MCDecode.cfg", replay=("fibex", "decode")),
            # the verdicts of the skipper, the storage-header helpers and of sessions with a filter against the reference machine: no listed
            # property fixes them in full (C02 states the parser's verdict), so they are conformance beyond the list
            mc("junk", "MCJunk", "MCJunk_quick.cfg", "MCJunk_thorough.cfg", replay=("slice", "verdict", "verdict,search")),
            mc("session", "MCSession", "MCSession_quick.cfg", "MCSession_thorough.cfg", replay=("slice", "session")),
            dict(kind="custom", fn=tlaps_timestamps_always),
        ],
        rule="service ids / control types: all 256 bytes; type widths, argument counts: seeded random; pipeline: seeded random well-formed streams x random filters",
        explanation="Beyond the listed properties: service_id_lookup, ControlType::from_value / value, TypeInfo::type_width, PayloadContent::arg_count, LogLevel -> log::Level "
                    "against tables in DltMisc; and the composed behaviour reader -> parse -> filter -> statistics: for well-formed streams read_message(filter) yields the marker "
                    "exactly for the dropped messages, kept + dropped = number of messages = ECU total of collect_statistics; and non-verbose decoding end to end "
                    "(NvDecode: load FIBEX files, parse a non-verbose message, extract_metadata by (context id, application id, message id) or by id alone, construct_arguments "
                    "from the frame's signal types) = the composition of the loader machine, the reference decoder, Lookup and ConstructArgs; and the filter configuration as a "
                    "document (FilterJson): read_filter_options on map / sequence forms with absent, null, ill-typed, out-of-range, unknown and repeated fields = Load, "
                    "the text serde writes loads to the same configuration, and both conversions into the processed configuration = Processed (MCFilterJson: 106 369 states, "
                    "90 720 documents replayed into the code).",
    ),
}

# additions to the explanations after the seeded-change rounds (DESIGN 13.3): what the populations and relations gained
ALSO = {
    "C01": " Populations also hold: messages around the one-byte / 15-bit limits of every length field (253..258, 300, 1000, 32766..32769 bytes), control payloads with service ids above 15, empty network-trace slices, trailing data up to k x 64 KiB.",
    "C02": " Also: Message::new(conf).as_bytes() = EncMessage(NewMessage(conf)) (operation layout); messages at the head of buffers of k x 64 KiB + {0, 1, len - 1} bytes.",
    "C03": " Also: every 16-bit length field of an argument at its extremes (alone and in pairs passing 65535), message type x declared length combinations, the filter-configuration conversion under catch_unwind; returned messages whose own serialisation is longer than their bytes (unterminated strings) at 65535 .. 65521 / 32768 / 32767 / 256 / 255 bytes.",
    "C04": " The frame may start at any occurrence of the pattern (which occurrence is C06's subject).",
    "C06": " Also an absolute relation: whatever a parse with storage header returns ends at the frame of the FIRST occurrence of the pattern; junk that is a run of one filler byte (16..95 bytes), junk that is itself a complete message without storage header, buffers of exactly k x 64 KiB + {0, 7, 15} bytes, the search with 65551..200000 bytes behind the pattern.",
    "C07": " Also: no read_message result is a panic; every hostile piece of the C03 family heads its own stream; messages within 20 bytes of a power of two.",
    "C08": " Also: streams of hostile pieces and of messages within 20 bytes of a power of two (2^8..2^15).",
    "C10": " Also: id fields that are not valid UTF-8, ids differing in case or trailing blanks, 66 000 distinct ids, a fragmenting source, messages repeated byte for byte (1..3 copies).",
    "C11": " Documents also vary: XML prolog (7 variants), BYTE-LENGTH values, self-closing empty elements, texts with entities / leading and trailing white space / blank-only text, ids >= 2^31, ids differing only in letter case, standard signal names re-declared as signals; consecutive loads go through the same slot paths.",
    "C12": " Also: XML prolog variants, texts with entities, consecutive loads through the same slot paths, a 5.7 MB valid document under an 8 s bound; documents dense with 2- / 3- / 4-byte characters in which one text is emptied / removed / made non-numeric, at four alignments.",
    "C14": " The statistics scan is covered as one more entry point: the flags of the header handed to a visitor are those of the header-type byte. Also: every header-type byte under declared lengths around the announced headers (if a message is returned, its flags are those of the byte).",
    "C16": " The chain also starts from messages laid out by hand (not by the crate's writer): string / raw arguments of 0..4000 bytes, float arguments by bit pattern (signalling / quiet NaNs, infinities, -0, subnormals); hand-made text holds line ends, tabs, control and multi-byte characters, hand-made variable info has names / units with blanks, tabs and line breaks.",
    "C17": " Thorough tier: the identities on the naturals are also proved by TLAPS (spec/proofs/TimestampArith.tla).",
    "C19": " The ids a statistics visitor is handed obey the rule too. Also: a buffer ending inside an id field: incomplete with a hint no larger than the bytes missing in that field; id bytes incl. blank, tab, NBSP, invalid UTF-8.",
}
# what each relation demands after it was narrowed to exactly its statement (DESIGN 13.1 and corrections log 8-22): where this differs from
# the text above, this is what the check does
ASBUILT = {
    "C01": " As built: the relation is the round trip alone - parse(as_bytes(m) ++ suffix) = (m, whole length, suffix) - for values that are well formed with the payload length their OWN serialisation has (generated values get the payload length of the crate's writer before use); that the bytes are the prescribed layout is checked by C02 only. Also through Message::new (roundnew).",
    "C02": " As built: replayed cases are calls of the message parser without a filter only (--accept @parser); the verdicts of the skipper, the storage-header helpers and of sessions with a filter are replayed by C04 / C06 / C09 with their own relations and, against the full reference, by ./check extras.",
    "C04": " As built: the skipper's frame may start at any occurrence of the pattern too; every successful call must return the input's suffix (by address) behind the reported count; sessions contain frames of 256..1000 bytes and at the 16-bit limit with filters drawn from them.",
    "C05": " As built: the premise is that the bytes are the serialisation of a well-formed message value (payload length = the one the bytes have), not that the reference decoder accepts them.",
    "C07": " As built: read_message is compared with parsing each delivered piece up to the terminal element; the terminal element must be an ending the statement allows for the stream (any error variant counts as an error).",
    "C11": " As built: result \\in Accept(model) - Intended(model) under either order of equal sequence numbers and either resolution of duplicated signal / coding ids, plus refusal when the model leaves the supported vocabulary; Intended(model) \\in Accept(model) is an invariant of MCFibex.",
    "C13": " As built: compared are the type description and the value of each argument (name, unit and fixed-point data are not mentioned by the statement).",
    "C14": " As built: the legs through the parser are conditional (if the parser returns a message around the byte / word, the decoded fields are the prescribed ones; the canonical template and one with four payload bytes), with a counter that requires the legs to be taken.",
    "C15": " As built: the built message equals the model's up to the payload length, which must be the one the written payload has; for configurations that describe no well-formed message only what the statement names is compared; the 16 prepended bytes must parse back to the given time and id (their layout is C02's); len / as_bytes must not panic for well-formed arguments, valid() never.",
    "C18": " As built: outside the stated domain any value or nothing is accepted (only a panic is excluded); 128-bit integers on a fixed-point kind likewise.",
    "C19": " As built: sizes above 65535 are outside the quantifier (premise); every ids event carries a control parse of the same message with plain ids (a refusal of both says nothing about the id rule).",
}
for _k, _v in ALSO.items():
    PLANS[_k]["explanation"] += _v
for _k, _v in ASBUILT.items():
    PLANS[_k]["explanation"] += _v

