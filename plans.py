"""Per-property plans for ./check: which bounded instances TLC model-checks, which of them generate replay
cases (direction A), which drivers record traces and which trace specification validates them (direction B)."""


def mc(name, module, quick, thorough, replay=None, workers=10, simulate=None, timeout=None, heap="8g"):
    d = dict(kind="mc", name=name, module=module, cfg={"quick": quick, "thorough": thorough}, replay=replay, workers=workers, simulate=simulate, heap=heap)
    if timeout:
        d["timeout"] = timeout
    return d


def rec(suite, mode, trace, nq, nt, shq=2, sht=8, salt=0, args=None):
    return dict(kind="record", suite=suite, mode=mode, trace=trace, n={"quick": nq, "thorough": nt}, shards={"quick": shq, "thorough": sht}, salt=salt, args=args or [])


SLICE_RULE = ("direction A: every state of the TLC builder machine is one case; direction B: seeded random / mutated / boundary-aimed inputs. "
              "An event is non-trivial when its input reaches past the fixed headers (>= 4 bytes after an optional storage header) "
              "and distinct by the hash of its full JSON line (input and result).")

PLANS = {
    "_trace_of_suite": {"slice": "TraceSlice"},
    "C01": dict(
        sany=["DltCodec.tla", "mc/MCCodec.tla", "trace/TraceSlice.tla"],
        steps=[
            mc("codec", "MCCodec", "MCCodec_quick.cfg", "MCCodec_thorough.cfg", replay=("slice", "round")),
            rec("slice", "round", "TraceSlice", 1500, 40000, 3, 10),
        ],
        rule=SLICE_RULE,
        explanation="MC: theorem RoundTrip (decode(encode m ++ suffix) = (m, Len)) of the reference codec on every message of the builder machine "
                    "(19 kind/width variants x VARI x TRAI x SCOD x empty names, pairs of arguments, 64 header-flag combinations in the thorough tier, 5 suffixes). "
                    "A: each message replayed: Message -> as_bytes = reference bytes; dlt_message(bytes ++ suffix) = (same message, rest = suffix) for 5 suffixes. "
                    "B: random well-formed messages (full-range values, up to 255 arguments, long strings, all payload kinds, both byte orders) serialised and "
                    "parsed by the crate with 7 trailing byte strings; TLC checks WellFormed(m), bytes = EncMessage(m), every result = (m, Len(bytes)), rest = suffix.",
    ),
}
