------------------------------ MODULE DltCodec ------------------------------
(* Reference codec of the DLT layout: encode and decode, written from the    *)
(* layout description (DESIGN Appendix A).  Values >= 2^16 are big-endian     *)
(* byte images.                                                              *)
EXTENDS Naturals, Sequences, Bytes, Utf8, DltCodes

\* ---------------------------------------------------------------- fields
\* fixed-size NUL-terminated field s[p..p+n-1] (caller guarantees it is inside the buffer)
ZField(s, p, n) ==
  LET z == FirstNul(s, p, p + n - 1)
      raw == IF z = 0 THEN Sub(s, p, p + n - 1) ELSE Sub(s, p, z - 1)
  IN Sub(raw, 1, ValidUpTo(raw))
Pad(str, n) == str \o [i \in 1..(IF Len(str) < n THEN n - Len(str) ELSE 0) |-> 0]

\* ---------------------------------------------------------------- arguments: decode
\* All decoders work on the whole buffer s with a window lo..hi (the declared payload).
\* Result: <<>> on failure, else <<[arg |-> a, next |-> position after the argument]>>.
Fits(p, n, hi) == p + n - 1 <= hi
DecNameOnly(s, p, hi, be, vari) ==      \* [VARI: nlen16, name]
  IF ~vari THEN Some([name |-> None, next |-> p])
  ELSE IF ~Fits(p, 2, hi) THEN None
  ELSE LET n == U16(s, p, be) IN
       IF ~Fits(p + 2, n, hi) THEN None ELSE Some([name |-> Some(ZField(s, p + 2, n)), next |-> p + 2 + n])
DecNameUnit(s, p, hi, be, vari) ==      \* [VARI: nlen16, ulen16, name, unit]
  IF ~vari THEN Some([name |-> None, unit |-> None, next |-> p])
  ELSE IF ~Fits(p, 4, hi) THEN None
  ELSE LET n == U16(s, p, be)  u == U16(s, p + 2, be) IN
       IF ~Fits(p + 4, n + u, hi) THEN None
       ELSE Some([name |-> Some(ZField(s, p + 4, n)), unit |-> Some(ZField(s, p + 4 + n, u)), next |-> p + 4 + n + u])
Arg(d, name, unit, fp, val) == [kind |-> d.kind, w |-> d.w, cod |-> d.cod, vari |-> d.vari, trai |-> d.trai,
                                name |-> name, unit |-> unit, fp |-> fp, val |-> val]
DecArg(s, p, hi, be) ==
  IF ~Fits(p, 4, hi) THEN None
  ELSE LET td == TiDec(Norm(Sub(s, p, p + 3), be)) IN
  IF td = None THEN None
  ELSE LET d == td[1]  q == p + 4 IN
  CASE d.kind = "bool" ->
         LET nm == DecNameOnly(s, q, hi, be, d.vari) IN
         IF nm = None \/ ~Fits(nm[1].next, 1, hi) THEN None
         ELSE Some([arg |-> Arg(d, nm[1].name, None, None, <<"bool", <<s[nm[1].next]>> >>), next |-> nm[1].next + 1])
    [] d.kind \in {"sint", "uint", "float"} ->
         LET nu == DecNameUnit(s, q, hi, be, d.vari)  n == d.w \div 8 IN
         IF nu = None \/ ~Fits(nu[1].next, n, hi) THEN None
         ELSE LET v == nu[1].next IN
              Some([arg |-> Arg(d, nu[1].name, nu[1].unit, None,
                                <<(CASE d.kind = "sint" -> "i" [] d.kind = "uint" -> "u" [] OTHER -> "f"),
                                  Norm(Sub(s, v, v + n - 1), be)>>),
                    next |-> v + n])
    [] d.kind \in {"sfp", "ufp"} ->
         LET nu == DecNameUnit(s, q, hi, be, d.vari)  n == d.w \div 8 IN      \* offset width = value width (4 or 8)
         IF nu = None \/ ~Fits(nu[1].next, 4 + n + n, hi) THEN None
         ELSE LET v == nu[1].next IN
              Some([arg |-> Arg(d, nu[1].name, nu[1].unit,
                                Some([q |-> Norm(Sub(s, v, v + 3), be), off |-> Norm(Sub(s, v + 4, v + 3 + n), be)]),
                                <<(IF d.kind = "sfp" THEN "i" ELSE "u"), Norm(Sub(s, v + 4 + n, v + 3 + n + n), be)>>),
                    next |-> v + 4 + n + n])
    [] d.kind \in {"str", "raw"} ->
         IF ~Fits(q, 2, hi) THEN None
         ELSE LET len == U16(s, q, be)
                  nm == DecNameOnly(s, q + 2, hi, be, d.vari) IN
              IF nm = None \/ ~Fits(nm[1].next, len, hi) THEN None
              ELSE LET v == nm[1].next IN
                   Some([arg |-> Arg(d, nm[1].name, None, None,
                                     IF d.kind = "str" THEN <<"str", ZField(s, v, len)>>
                                                       ELSE <<"raw", Sub(s, v, v + len - 1)>>),
                         next |-> v + len])
RECURSIVE DecArgs(_, _, _, _, _)
DecArgs(s, p, hi, be, n) ==            \* <<>> on failure else <<sequence of args>>
  IF n = 0 THEN Some(<<>>)
  ELSE LET a == DecArg(s, p, hi, be) IN
       IF a = None THEN None
       ELSE LET r == DecArgs(s, a[1].next, hi, be, n - 1) IN
            IF r = None THEN None ELSE Some(<<a[1].arg>> \o r[1])

\* ---------------------------------------------------------------- message: decode (DESIGN Appendix A)
Inc == [v |-> "inc"]
Rej == [v |-> "rej"]
\* filterDrop(std, ext) is supplied by the caller (FALSE when no filter)
ParseVerdictF(buf, sh, FilterDrop(_, _)) ==
  LET k == IF sh THEN FindPattern(buf) ELSE 1 IN
  IF sh /\ Len(buf) < 16 THEN Inc
  ELSE IF sh /\ k = 0 THEN Inc
  ELSE IF sh /\ Len(buf) - k + 1 < 16 THEN Inc
  ELSE
  LET o == IF sh THEN k + 15 ELSE 0          \* offset: rest[i] = buf[o + i]
      avail == Len(buf) - o
      storage == IF sh THEN Some([secs |-> Rev(Sub(buf, k + 4, k + 7)), us |-> Rev(Sub(buf, k + 8, k + 11)),
                                  ecu |-> ZField(buf, k + 12, 4)])
                 ELSE None
  IN
  IF avail < 4 THEN Inc
  ELSE
  LET htyp == buf[o + 1]  h == HtypDec(htyp)  std == StdLen(htyp)  hdrs == HdrsLen(htyp) IN
  IF avail < std THEN Inc
  ELSE
  LET LEN == U16(buf, o + 3, TRUE) IN
  IF hdrs > LEN THEN Rej
  ELSE IF h.ueh /\ avail < std + 10 THEN Inc
  ELSE IF avail < LEN THEN Inc
  ELSE
  LET pE == o + 5                                   \* position of the optional fields
      ecu == IF h.weid THEN Some(ZField(buf, pE, 4)) ELSE None
      pS == pE + (IF h.weid THEN 4 ELSE 0)
      sid == IF h.wsid THEN Some(Sub(buf, pS, pS + 3)) ELSE None
      pT == pS + (IF h.wsid THEN 4 ELSE 0)
      tms == IF h.wtms THEN Some(Sub(buf, pT, pT + 3)) ELSE None
      pX == o + std + 1
      mi == MsinDec(buf[pX])
      ext == IF h.ueh THEN Some([verb |-> mi.verb, noar |-> buf[pX + 1], mt |-> mi.mt,
                                 ap |-> ZField(buf, pX + 2, 4), ct |-> ZField(buf, pX + 6, 4)])
             ELSE None
      plen == LEN - hdrs
      lo == o + hdrs + 1
      hi == o + LEN
      consumed == o + LEN
      hdr == [ver |-> h.ver, be |-> h.be, ueh |-> h.ueh, mcnt |-> buf[o + 2], ecu |-> ecu, sid |-> sid, tms |-> tms, plen |-> plen]
      Msg(p) == [v |-> "msg", consumed |-> consumed, m |-> [sh |-> storage, h |-> hdr, x |-> ext, p |-> p]]
  IN
  IF FilterDrop(hdr, ext) THEN [v |-> "filtered", n |-> plen, consumed |-> consumed]
  ELSE IF h.ueh /\ ext[1].verb THEN
         LET r == DecArgs(buf, lo, hi, h.be, ext[1].noar) IN
         IF r = None THEN Rej
         ELSE IF ext[1].mt[1] = MSTP_NW
              THEN Msg(<<"nw", LET raws == SelectSeq(r[1], LAMBDA a : a.val[1] = "raw") IN [i \in 1..Len(raws) |-> raws[i].val[2]]>>)
              ELSE Msg(<<"v", r[1]>>)
  ELSE IF h.ueh /\ ext[1].mt[1] = MSTP_CTRL THEN
         IF plen < 1 THEN Rej ELSE Msg(<<"ctl", buf[lo], Sub(buf, lo + 1, hi)>>)
  ELSE IF plen < 4 THEN Rej ELSE Msg(<<"nv", Norm(Sub(buf, lo, lo + 3), h.be), Sub(buf, lo + 4, hi)>>)

NoFilter(hdr, ext) == FALSE
ParseVerdict(buf, sh) == ParseVerdictF(buf, sh, NoFilter)

\* ---------------------------------------------------------------- encode
LenPfx(str, be) == U16Bytes(Len(str) + 1, be)            \* length prefix counts the terminating NUL
EncNameOnly(a, be) == IF a.vari THEN LenPfx(a.name[1], be) \o a.name[1] \o <<0>> ELSE <<>>
EncNameUnit(a, be) == IF a.vari THEN LenPfx(a.name[1], be) \o LenPfx(a.unit[1], be) \o a.name[1] \o <<0>> \o a.unit[1] \o <<0>>
                      ELSE <<>>
EncArg(a, be) ==
  LET ti == Norm(TiEnc([kind |-> a.kind, w |-> a.w, cod |-> a.cod, vari |-> a.vari, trai |-> a.trai]), be) IN
  CASE a.kind = "bool" -> ti \o EncNameOnly(a, be) \o a.val[2]
    [] a.kind \in {"sint", "uint", "float"} -> ti \o EncNameUnit(a, be) \o Norm(a.val[2], be)
    [] a.kind \in {"sfp", "ufp"} -> ti \o EncNameUnit(a, be) \o Norm(a.fp[1].q, be) \o Norm(a.fp[1].off, be) \o Norm(a.val[2], be)
    [] a.kind = "str" -> ti \o LenPfx(a.val[2], be) \o EncNameOnly(a, be) \o a.val[2] \o <<0>>
    [] a.kind = "raw" -> ti \o U16Bytes(Len(a.val[2]), be) \o EncNameOnly(a, be) \o a.val[2]
RECURSIVE Cat(_)
Cat(ss) == IF ss = <<>> THEN <<>> ELSE Head(ss) \o Cat(Tail(ss))
RawArg(bytes) == [kind |-> "raw", w |-> 0, cod |-> 0, vari |-> FALSE, trai |-> FALSE, name |-> None, unit |-> None,
                  fp |-> None, val |-> <<"raw", bytes>>]
EncPayload(p, be) ==
  CASE p[1] = "v"   -> Cat([i \in 1..Len(p[2]) |-> EncArg(p[2][i], be)])
    [] p[1] = "nv"  -> Norm(p[2], be) \o p[3]
    [] p[1] = "ctl" -> <<p[2]>> \o p[3]
    [] p[1] = "nw"  -> Cat([i \in 1..Len(p[2]) |-> EncArg(RawArg(p[2][i]), be)])
EncStorage(s) == Pattern \o Rev(s.secs) \o Rev(s.us) \o Pad(s.ecu, 4)
EncMessage(m) ==
  LET h == m.h
      htyp == HtypEnc([ueh |-> h.ueh, be |-> h.be, weid |-> IsSome(h.ecu), wsid |-> IsSome(h.sid), wtms |-> IsSome(h.tms), ver |-> h.ver])
      pay == EncPayload(m.p, h.be)
      LEN == HdrsLen(htyp) + h.plen
  IN (IF IsSome(m.sh) THEN EncStorage(m.sh[1]) ELSE <<>>)
     \o <<htyp, h.mcnt, LEN \div 256, LEN % 256>>
     \o (IF IsSome(h.ecu) THEN Pad(h.ecu[1], 4) ELSE <<>>)
     \o (IF IsSome(h.sid) THEN h.sid[1] ELSE <<>>)
     \o (IF IsSome(h.tms) THEN h.tms[1] ELSE <<>>)
     \o (IF IsSome(m.x) THEN LET x == m.x[1] IN <<MsinEnc(x.verb, x.mt), x.noar>> \o Pad(x.ap, 4) \o Pad(x.ct, 4) ELSE <<>>)
     \o pay
=============================================================================
