------------------------------ MODULE DltCodec ------------------------------
(* Reference codec of the DLT layout: encode and decode, written from the    *)
(* layout description (DESIGN Appendix A).  Values >= 2^16 are big-endian     *)
(* byte images.                                                              *)
EXTENDS Integers, Sequences, Bytes, Utf8, DltCodes

\* ---------------------------------------------------------------- fields
\* fixed-size NUL-terminated field s[p..p+n-1] (caller guarantees it is inside the buffer)
ZField(s, p, n) ==
  LET z == FirstNul(s, p, p + n - 1)
      raw == IF z = 0 THEN Sub(s, p, p + n - 1) ELSE Sub(s, p, z - 1)
  IN Sub(raw, 1, ValidUpTo(raw))
Pad(str, n) == str \o [i \in 1..(IF Len(str) < n THEN n - Len(str) ELSE 0) |-> 0]

\* ---------------------------------------------------------------- arguments: decode
\* All decoders work on the whole buffer s with a window lo..hi (the declared payload).
\* Result: <<>> on failure, else <<[arg |-> a, next |-> position after the argument]>>.
Fits(p, n, hi) == p + n - 1 <= hi
DecNameOnly(s, p, hi, be, vari) ==      \* [VARI: nlen16, name]
  IF ~vari THEN Some([name |-> None, next |-> p])
  ELSE IF ~Fits(p, 2, hi) THEN None
  ELSE LET n == U16(s, p, be) IN
       IF ~Fits(p + 2, n, hi) THEN None ELSE Some([name |-> Some(ZField(s, p + 2, n)), next |-> p + 2 + n])
DecNameUnit(s, p, hi, be, vari) ==      \* [VARI: nlen16, ulen16, name, unit]
  IF ~vari THEN Some([name |-> None, unit |-> None, next |-> p])
  ELSE IF ~Fits(p, 4, hi) THEN None
  ELSE LET n == U16(s, p, be)  u == U16(s, p + 2, be) IN
       IF ~Fits(p + 4, n + u, hi) THEN None
       ELSE Some([name |-> Some(ZField(s, p + 4, n)), unit |-> Some(ZField(s, p + 4 + n, u)), next |-> p + 4 + n + u])
Arg(d, name, unit, fp, val) == [kind |-> d.kind, w |-> d.w, cod |-> d.cod, vari |-> d.vari, trai |-> d.trai,
                                name |-> name, unit |-> unit, fp |-> fp, val |-> val]
DecArg(s, p, hi, be) ==
  IF ~Fits(p, 4, hi) THEN None
  ELSE LET td == TiDec(Norm(Sub(s, p, p + 3), be)) IN
  IF td = None THEN None
  ELSE LET d == td[1]  q == p + 4 IN
  CASE d.kind = "bool" ->
         LET nm == DecNameOnly(s, q, hi, be, d.vari) IN
         IF nm = None \/ ~Fits(nm[1].next, 1, hi) THEN None
         ELSE Some([arg |-> Arg(d, nm[1].name, None, None, <<"bool", <<s[nm[1].next]>> >>), next |-> nm[1].next + 1])
    [] d.kind \in {"sint", "uint", "float"} ->
         LET nu == DecNameUnit(s, q, hi, be, d.vari)  n == d.w \div 8 IN
         IF nu = None \/ ~Fits(nu[1].next, n, hi) THEN None
         ELSE LET v == nu[1].next IN
              Some([arg |-> Arg(d, nu[1].name, nu[1].unit, None,
                                <<(CASE d.kind = "sint" -> "i" [] d.kind = "uint" -> "u" [] OTHER -> "f"),
                                  Norm(Sub(s, v, v + n - 1), be)>>),
                    next |-> v + n])
    [] d.kind \in {"sfp", "ufp"} ->
         LET nu == DecNameUnit(s, q, hi, be, d.vari)  n == d.w \div 8 IN      \* offset width = value width (4 or 8)
         IF nu = None \/ ~Fits(nu[1].next, 4 + n + n, hi) THEN None
         ELSE LET v == nu[1].next IN
              Some([arg |-> Arg(d, nu[1].name, nu[1].unit,
                                Some([q |-> Norm(Sub(s, v, v + 3), be), off |-> Norm(Sub(s, v + 4, v + 3 + n), be)]),
                                <<(IF d.kind = "sfp" THEN "i" ELSE "u"), Norm(Sub(s, v + 4 + n, v + 3 + n + n), be)>>),
                    next |-> v + 4 + n + n])
    [] d.kind \in {"str", "raw"} ->
         IF ~Fits(q, 2, hi) THEN None
         ELSE LET len == U16(s, q, be)
                  nm == DecNameOnly(s, q + 2, hi, be, d.vari) IN
              IF nm = None \/ ~Fits(nm[1].next, len, hi) THEN None
              ELSE LET v == nm[1].next IN
                   Some([arg |-> Arg(d, nm[1].name, None, None,
                                     IF d.kind = "str" THEN <<"str", ZField(s, v, len)>>
                                                       ELSE <<"raw", Sub(s, v, v + len - 1)>>),
                         next |-> v + len])
RECURSIVE DecArgs(_, _, _, _, _)
DecArgs(s, p, hi, be, n) ==            \* <<>> on failure else <<sequence of args>>
  IF n = 0 THEN Some(<<>>)
  ELSE LET a == DecArg(s, p, hi, be) IN
       IF a = None THEN None
       ELSE LET r == DecArgs(s, a[1].next, hi, be, n - 1) IN
            IF r = None THEN None ELSE Some(<<a[1].arg>> \o r[1])

\* ---------------------------------------------------------------- message: decode (DESIGN Appendix A)
Inc == [v |-> "inc"]
Rej == [v |-> "rej"]
\* filterDrop(std, ext) is supplied by the caller (FALSE when no filter)
ParseVerdictF(buf, sh, FilterDrop(_, _)) ==
  LET k == IF sh THEN FindPattern(buf) ELSE 1 IN
  IF sh /\ Len(buf) < 16 THEN Inc
  ELSE IF sh /\ k = 0 THEN Inc
  ELSE IF sh /\ Len(buf) - k + 1 < 16 THEN Inc
  ELSE
  LET o == IF sh THEN k + 15 ELSE 0          \* offset: rest[i] = buf[o + i]
      avail == Len(buf) - o
      storage == IF sh THEN Some([secs |-> Rev(Sub(buf, k + 4, k + 7)), us |-> Rev(Sub(buf, k + 8, k + 11)),
                                  ecu |-> ZField(buf, k + 12, 4)])
                 ELSE None
  IN
  IF avail < 4 THEN Inc
  ELSE
  LET htyp == buf[o + 1]  h == HtypDec(htyp)  std == StdLen(htyp)  hdrs == HdrsLen(htyp) IN
  IF avail < std THEN Inc
  ELSE
  LET LEN == U16(buf, o + 3, TRUE) IN
  IF hdrs > LEN THEN Rej
  ELSE IF h.ueh /\ avail < std + 10 THEN Inc
  ELSE IF avail < LEN THEN Inc
  ELSE
  LET pE == o + 5                                   \* position of the optional fields
      ecu == IF h.weid THEN Some(ZField(buf, pE, 4)) ELSE None
      pS == pE + (IF h.weid THEN 4 ELSE 0)
      sid == IF h.wsid THEN Some(Sub(buf, pS, pS + 3)) ELSE None
      pT == pS + (IF h.wsid THEN 4 ELSE 0)
      tms == IF h.wtms THEN Some(Sub(buf, pT, pT + 3)) ELSE None
      pX == o + std + 1
      mi == MsinDec(buf[pX])
      ext == IF h.ueh THEN Some([verb |-> mi.verb, noar |-> buf[pX + 1], mt |-> mi.mt,
                                 ap |-> ZField(buf, pX + 2, 4), ct |-> ZField(buf, pX + 6, 4)])
             ELSE None
      plen == LEN - hdrs
      lo == o + hdrs + 1
      hi == o + LEN
      consumed == o + LEN
      hdr == [ver |-> h.ver, be |-> h.be, ueh |-> h.ueh, mcnt |-> buf[o + 2], ecu |-> ecu, sid |-> sid, tms |-> tms, plen |-> plen]
      Msg(p) == [v |-> "msg", consumed |-> consumed, m |-> [sh |-> storage, h |-> hdr, x |-> ext, p |-> p]]
  IN
  IF FilterDrop(hdr, ext) THEN [v |-> "filtered", n |-> plen, consumed |-> consumed]
  ELSE IF h.ueh /\ ext[1].verb THEN
         LET r == DecArgs(buf, lo, hi, h.be, ext[1].noar) IN
         IF r = None THEN Rej
         ELSE IF ext[1].mt[1] = MSTP_NW
              THEN Msg(<<"nw", LET raws == SelectSeq(r[1], LAMBDA a : a.val[1] = "raw") IN [i \in 1..Len(raws) |-> raws[i].val[2]]>>)
              ELSE Msg(<<"v", r[1]>>)
  ELSE IF h.ueh /\ ext[1].mt[1] = MSTP_CTRL THEN
         IF plen < 1 THEN Rej ELSE Msg(<<"ctl", buf[lo], Sub(buf, lo + 1, hi)>>)
  ELSE IF plen < 4 THEN Rej ELSE Msg(<<"nv", Norm(Sub(buf, lo, lo + 3), h.be), Sub(buf, lo + 4, hi)>>)

NoFilter(hdr, ext) == FALSE
ParseVerdict(buf, sh) == ParseVerdictF(buf, sh, NoFilter)

\* ---------------------------------------------------------------- encode
LenPfx(str, be) == U16Bytes(Len(str) + 1, be)            \* length prefix counts the terminating NUL
EncNameOnly(a, be) == IF a.vari THEN LenPfx(a.name[1], be) \o a.name[1] \o <<0>> ELSE <<>>
EncNameUnit(a, be) == IF a.vari THEN LenPfx(a.name[1], be) \o LenPfx(a.unit[1], be) \o a.name[1] \o <<0>> \o a.unit[1] \o <<0>>
                      ELSE <<>>
EncArg(a, be) ==
  LET ti == Norm(TiEnc([kind |-> a.kind, w |-> a.w, cod |-> a.cod, vari |-> a.vari, trai |-> a.trai]), be) IN
  CASE a.kind = "bool" -> ti \o EncNameOnly(a, be) \o a.val[2]
    [] a.kind \in {"sint", "uint", "float"} -> ti \o EncNameUnit(a, be) \o Norm(a.val[2], be)
    [] a.kind \in {"sfp", "ufp"} -> ti \o EncNameUnit(a, be) \o Norm(a.fp[1].q, be) \o Norm(a.fp[1].off, be) \o Norm(a.val[2], be)
    [] a.kind = "str" -> ti \o LenPfx(a.val[2], be) \o EncNameOnly(a, be) \o a.val[2] \o <<0>>
    [] a.kind = "raw" -> ti \o U16Bytes(Len(a.val[2]), be) \o EncNameOnly(a, be) \o a.val[2]
RECURSIVE Cat(_)
Cat(ss) == IF ss = <<>> THEN <<>> ELSE Head(ss) \o Cat(Tail(ss))
RawArg(bytes) == [kind |-> "raw", w |-> 0, cod |-> 0, vari |-> FALSE, trai |-> FALSE, name |-> None, unit |-> None,
                  fp |-> None, val |-> <<"raw", bytes>>]
EncPayload(p, be) ==
  CASE p[1] = "v"   -> Cat([i \in 1..Len(p[2]) |-> EncArg(p[2][i], be)])
    [] p[1] = "nv"  -> Norm(p[2], be) \o p[3]
    [] p[1] = "ctl" -> <<p[2]>> \o p[3]
    [] p[1] = "nw"  -> Cat([i \in 1..Len(p[2]) |-> EncArg(RawArg(p[2][i]), be)])
EncStorage(s) == Pattern \o Rev(s.secs) \o Rev(s.us) \o Pad(s.ecu, 4)
EncMessage(m) ==
  LET h == m.h
      htyp == HtypEnc([ueh |-> h.ueh, be |-> h.be, weid |-> IsSome(h.ecu), wsid |-> IsSome(h.sid), wtms |-> IsSome(h.tms), ver |-> h.ver])
      pay == EncPayload(m.p, h.be)
      LEN == HdrsLen(htyp) + h.plen
  IN (IF IsSome(m.sh) THEN EncStorage(m.sh[1]) ELSE <<>>)
     \o <<htyp, h.mcnt, LEN \div 256, LEN % 256>>
     \o (IF IsSome(h.ecu) THEN Pad(h.ecu[1], 4) ELSE <<>>)
     \o (IF IsSome(h.sid) THEN h.sid[1] ELSE <<>>)
     \o (IF IsSome(h.tms) THEN h.tms[1] ELSE <<>>)
     \o (IF IsSome(m.x) THEN LET x == m.x[1] IN <<MsinEnc(x.verb, x.mt), x.noar>> \o Pad(x.ap, 4) \o Pad(x.ct, 4) ELSE <<>>)
     \o pay
\* ---------------------------------------------------------------- well-formedness (quantifier of C01 / C15, transcribed)
\* "ids <= 4 bytes without NUL; names, units and strings without NUL; value variant and fixed-point data matching
\*  the type info; name/unit presence matching the variable-info flag; verbose flag, argument count, extended-header
\*  flag and payload length consistent with the payload; canonical codes for the enumerations; total length within
\*  the 16-bit length field"
NoNul(s) == \A i \in 1..Len(s) : s[i] # 0
Text(s) == NoNul(s) /\ Valid(s)                       \* what a Rust String without NUL can hold
IdOk(s) == Len(s) <= 4 /\ Text(s)
NameOnlyKind(k) == k \in {"bool", "str", "raw"}
ArgWellFormed(a) ==
  /\ a.cod \in 0..7
  /\ a.kind \in {"bool", "sint", "uint", "sfp", "ufp", "float", "str", "raw"}
  /\ CASE a.kind = "bool" -> a.w = 0 /\ a.val[1] = "bool" /\ Len(a.val[2]) = 1
       [] a.kind = "sint" -> a.w \in {8, 16, 32, 64, 128} /\ a.val[1] = "i" /\ Len(a.val[2]) = a.w \div 8
       [] a.kind = "uint" -> a.w \in {8, 16, 32, 64, 128} /\ a.val[1] = "u" /\ Len(a.val[2]) = a.w \div 8
       [] a.kind = "sfp"  -> a.w \in {32, 64} /\ a.val[1] = "i" /\ Len(a.val[2]) = a.w \div 8
       [] a.kind = "ufp"  -> a.w \in {32, 64} /\ a.val[1] = "u" /\ Len(a.val[2]) = a.w \div 8
       [] a.kind = "float" -> a.w \in {32, 64} /\ a.val[1] = "f" /\ Len(a.val[2]) = a.w \div 8
       [] a.kind = "str"  -> a.w = 0 /\ a.val[1] = "str" /\ Text(a.val[2])
       [] a.kind = "raw"  -> a.w = 0 /\ a.val[1] = "raw"
  /\ IF a.kind \in {"sfp", "ufp"}
     THEN IsSome(a.fp) /\ Len(a.fp[1].q) = 4 /\ Len(a.fp[1].off) = a.w \div 8
     ELSE a.fp = None
  /\ IsSome(a.name) = a.vari
  /\ IsSome(a.unit) = (a.vari /\ ~NameOnlyKind(a.kind))
  /\ (IsSome(a.name) => Text(a.name[1]))
  /\ (IsSome(a.unit) => Text(a.unit[1]))
MtCanonical(mt) == mt[1] \in 0..7 /\ mt[2] \in 0..15
WellFormed(m) ==
  LET h == m.h  p == m.p IN
  /\ h.ver \in 0..7 /\ h.mcnt \in 0..255
  /\ (IsSome(m.sh) => Len(m.sh[1].secs) = 4 /\ Len(m.sh[1].us) = 4 /\ IdOk(m.sh[1].ecu))
  /\ (IsSome(h.ecu) => IdOk(h.ecu[1]))
  /\ (IsSome(h.sid) => Len(h.sid[1]) = 4)
  /\ (IsSome(h.tms) => Len(h.tms[1]) = 4)
  /\ h.ueh = IsSome(m.x)
  /\ (IsSome(m.x) => LET x == m.x[1] IN IdOk(x.ap) /\ IdOk(x.ct) /\ MtCanonical(x.mt) /\ x.noar \in 0..255)
  /\ CASE p[1] = "v"   -> /\ h.ueh /\ m.x[1].verb /\ m.x[1].mt[1] # MSTP_NW /\ m.x[1].noar = Len(p[2])
                          /\ \A i \in 1..Len(p[2]) : ArgWellFormed(p[2][i])
       [] p[1] = "nw"  -> h.ueh /\ m.x[1].verb /\ m.x[1].mt[1] = MSTP_NW /\ m.x[1].noar = Len(p[2])
       [] p[1] = "ctl" -> h.ueh /\ ~m.x[1].verb /\ m.x[1].mt[1] = MSTP_CTRL /\ p[2] \in 0..255
       [] p[1] = "nv"  -> Len(p[2]) = 4 /\ (h.ueh => ~m.x[1].verb /\ m.x[1].mt[1] # MSTP_CTRL)
  /\ h.plen = Len(EncPayload(p, h.be))
  /\ HdrsLen(HtypEnc([ueh |-> h.ueh, be |-> h.be, weid |-> IsSome(h.ecu), wsid |-> IsSome(h.sid),
                      wtms |-> IsSome(h.tms), ver |-> h.ver])) + h.plen <= 65535
  \* every 16-bit length prefix must be able to hold its field
  /\ (p[1] = "v" => \A i \in 1..Len(p[2]) :
        LET a == p[2][i] IN
        /\ (IsSome(a.name) => Len(a.name[1]) + 1 <= 65535)
        /\ (IsSome(a.unit) => Len(a.unit[1]) + 1 <= 65535)
        /\ (a.kind = "str" => Len(a.val[2]) + 1 <= 65535)
        /\ (a.kind = "raw" => Len(a.val[2]) <= 65535))
  /\ (p[1] = "nw" => \A i \in 1..Len(p[2]) : Len(p[2][i]) <= 65535)

\* "Payload length consistent with the payload" relative to a given serialisation: C01, C05 and C15 speak about a message and
\* ITS serialised bytes, whatever layout the writer gives the payload (that the layout is the prescribed one is C02 alone).  A
\* trace line that carries a message value m and the bytes b the implementation wrote for it satisfies the premise when m is
\* well formed up to the payload length and the recorded payload length is the one b has (b = [storage header] headers payload).
WellFormedModLen(m) == WellFormed([m EXCEPT !.h.plen = Len(EncPayload(m.p, m.h.be))])
MsgDeclaredLen(m) == (IF IsSome(m.sh) THEN 16 ELSE 0) + m.h.plen
                  + HdrsLen(HtypEnc([ueh |-> m.h.ueh, be |-> m.h.be, weid |-> IsSome(m.h.ecu), wsid |-> IsSome(m.h.sid), wtms |-> IsSome(m.h.tms), ver |-> m.h.ver]))
WellFormedFor(m, b) == WellFormedModLen(m) /\ MsgDeclaredLen(m) = Len(b) /\ MsgDeclaredLen(m) - (IF IsSome(m.sh) THEN 16 ELSE 0) <= 65535

\* ---------------------------------------------------------------- lengths and validity (C15)
ArgLen(a) == Len(EncArg(a, TRUE))                     \* = Len(EncArg(a, FALSE)): MC theorem ArgLenOrderFree
ArgValid(a) == CASE a.kind = "bool"  -> a.val[1] = "bool"
                 [] a.kind = "float" -> a.val[1] = "f" /\ Len(a.val[2]) = a.w \div 8
                 [] OTHER -> TRUE
DeclaredLen(b, sh) ==    \* length the bytes' own header declares (incl. storage header); 0 if too short to tell
  LET o == IF sh THEN 16 ELSE 0 IN IF Len(b) < o + 4 THEN 0 ELSE o + U16(b, o + 3, TRUE)

\* ---------------------------------------------------------------- the other slice-level entry points
\* dlt_consume_msg: no resync, no payload inspection
PrefixOfPattern(buf) == LET c == IF Len(buf) < 4 THEN Len(buf) ELSE 4 IN Sub(buf, 1, c) = Sub(Pattern, 1, c)
ConsumeVerdict(buf) ==
  IF buf = <<>> THEN [v |-> "none"]
  ELSE IF ~PrefixOfPattern(buf) THEN Rej
  ELSE IF Len(buf) < 16 THEN Inc
  ELSE LET avail == Len(buf) - 16 IN
       IF avail < 4 THEN Inc
       ELSE LET htyp == buf[17]  std == StdLen(htyp)  LEN == U16(buf, 19, TRUE) IN
            IF avail < std THEN Inc
            ELSE IF HdrsLen(htyp) > LEN THEN Rej
            ELSE IF avail < LEN THEN Inc
            ELSE [v |-> "skipped", consumed |-> 16 + LEN]
\* skip_storage_header
SkipStorage(buf) == IF ~PrefixOfPattern(buf) THEN Rej ELSE IF Len(buf) < 16 THEN Inc ELSE [v |-> "skipped", consumed |-> 16]
\* forward_to_next_storage_header
Forward(buf) == LET k == FindPattern(buf) IN IF k = 0 THEN [v |-> "none"] ELSE [v |-> "found", dropped |-> k - 1]
\* dlt_zero_terminated_string(buf, size)
ZStr(buf, size) == IF Len(buf) < size THEN [v |-> "inc", miss |-> size - Len(buf)]
                   ELSE [v |-> "ok", val |-> ZField(buf, 1, size), consumed |-> size]

\* ---------------------------------------------------------------- the frame a buffer declares (C04)
\* offset of the standard header (after resync and storage header) and the end given by its length field;
\* -1 when the buffer holds no decodable frame header.  api: "parse" (resync) or "consume" (no resync).
FrameOff(buf, sh, api) == IF ~sh THEN 0 ELSE IF api = "consume" THEN 16 ELSE LET k == FindPattern(buf) IN IF k = 0 THEN 0 - 1 ELSE k + 15
FrameOf(buf, sh, api) ==
  LET o == FrameOff(buf, sh, api) IN
  IF o < 0 \/ Len(buf) < o + 4 THEN [end |-> 0 - 1, n |-> 0]
  ELSE [end |-> o + U16(buf, o + 3, TRUE), n |-> U16(buf, o + 3, TRUE) - HdrsLen(buf[o + 1])]
\* a successful call (message, filtered-out marker, skipped) must consume exactly a declared frame.  With resync (parse with
\* storage header) the property does not say WHICH occurrence of the pattern the parser settles on (that is C06): the
\* frame may start at any occurrence.
FrameAtOcc(buf, k) == IF Len(buf) < k + 19 THEN [end |-> 0 - 1, n |-> 0]
                      ELSE [end |-> k + 15 + U16(buf, k + 18, TRUE), n |-> U16(buf, k + 18, TRUE) - HdrsLen(buf[k + 16])]
Occurrences(buf) == {k \in 1..(Len(buf) - 3) : buf[k] = 68 /\ buf[k + 1] = 76 /\ buf[k + 2] = 84 /\ buf[k + 3] = 1}
FrameMatches(fr, buf, r) == /\ fr.end > 0 /\ r.consumed = fr.end /\ r.consumed <= Len(buf)
                            /\ r.v \in {"msg", "filtered"} => r.n = fr.n                \* reported payload length = the distance
FrameOk(buf, sh, api, r) ==      \* r: [v, consumed, n]
  IF r.v = "misaligned" THEN FALSE                                           \* a successful call whose remainder is not the input's suffix behind the reported count
  ELSE IF r.v \notin {"msg", "filtered", "skipped", "invalid"} THEN TRUE     \* the property speaks about successful calls only
  ELSE IF sh THEN \E k \in Occurrences(buf) : FrameMatches(FrameAtOcc(buf, k), buf, r)     \* parser and skipper alike ("after any bytes skipped in front of the pattern")
  ELSE FrameMatches(FrameOf(buf, sh, api), buf, r)

\* ---------------------------------------------------------------- construct_arguments (C13)
\* types: sequence of [kind, w, cod, vari, trai]; data: payload after the message id; be: byte order.
\* Result [v |-> "ok", args |-> ...] / [v |-> "err"] / [v |-> "any"] (a fixed-point type is outside the property).
\* Named deviation: a string signal's value is the length-prefixed field verbatim (no NUL cut), and must be valid UTF-8.
SigArg(t, val) == [kind |-> t.kind, w |-> t.w, cod |-> t.cod, vari |-> t.vari, trai |-> t.trai,
                   name |-> None, unit |-> None, fp |-> None, val |-> val]
RECURSIVE ConstructFrom(_, _, _, _, _)
ConstructFrom(types, i, data, p, be) ==     \* p = next unread position; returns <<>> or <<args>>
  IF i > Len(types) THEN Some(<<>>)
  ELSE LET t == types[i]  hi == Len(data) IN
  CASE t.kind \in {"str", "raw"} ->
         IF ~Fits(p, 2, hi) THEN None
         ELSE LET n == U16(data, p, be) IN
              IF ~Fits(p + 2, n, hi) THEN None
              ELSE LET f == Sub(data, p + 2, p + 1 + n) IN
                   IF t.kind = "str" /\ ~Valid(f) THEN None
                   ELSE LET r == ConstructFrom(types, i + 1, data, p + 2 + n, be) IN
                        IF r = None THEN None
                        ELSE Some(<<SigArg(t, <<(IF t.kind = "str" THEN "str" ELSE "raw"), f>>)>> \o r[1])
    [] t.kind = "bool" ->
         IF ~Fits(p, 1, hi) THEN None
         ELSE LET r == ConstructFrom(types, i + 1, data, p + 1, be) IN
              IF r = None THEN None ELSE Some(<<SigArg(t, <<"bool", <<data[p]>> >>)>> \o r[1])
    [] t.kind \in {"sint", "uint", "float"} ->
         LET n == t.w \div 8 IN
         IF ~Fits(p, n, hi) THEN None
         ELSE LET r == ConstructFrom(types, i + 1, data, p + n, be)
                  tag == CASE t.kind = "sint" -> "i" [] t.kind = "uint" -> "u" [] OTHER -> "f" IN
              IF r = None THEN None ELSE Some(<<SigArg(t, <<tag, Norm(Sub(data, p, p + n - 1), be)>>)>> \o r[1])
ConstructArgs(types, data, be) ==
  IF \E i \in 1..Len(types) : types[i].kind \in {"sfp", "ufp"} THEN [v |-> "any"]
  ELSE LET r == ConstructFrom(types, 1, data, 1, be) IN
       IF r = None THEN [v |-> "err"] ELSE [v |-> "ok", args |-> r[1]]
=============================================================================
