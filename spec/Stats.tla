-------------------------------- MODULE Stats --------------------------------
(* Statistics (C10): a header-only scan that visits every message once, the   *)
(* standard collector (three id -> 8-bucket tables and a flag), and merging   *)
(* of partial summaries.                                                      *)
(*   header  h = [ecu |-> None | Some(id), ext |-> None | Some([mt, ap, ct, verb])]        *)
(*   table   a function  id -> <<non_log, fatal, error, warn, info, debug, verbose, invalid>> *)
(*   summary [app, ctx, ecu : tables, nonverbose : BOOLEAN]                   *)
(* Collector machine: Collect(h) per message, Finish; Merge(a, b) of two      *)
(* summaries.  Tally(headers) is written independently as a count.            *)
EXTENDS Naturals, Sequences, FiniteSets, Bytes, DltCodes
NoneId == <<78, 79, 78, 69>>                    \* "NONE"
Zero8 == <<0, 0, 0, 0, 0, 0, 0, 0>>
\* bucket index 1..8 of a message
Bucket(h) == IF h.ext = None THEN 1
             ELSE LET mt == h.ext[1].mt IN
                  IF mt[1] # MSTP_LOG THEN 1 ELSE IF mt[2] \in 1..6 THEN mt[2] + 1 ELSE 8
Bump(table, id, b) == IF id \in DOMAIN table THEN [table EXCEPT ![id] = [@ EXCEPT ![b] = @ + 1]]
                      ELSE [x \in DOMAIN table \cup {id} |-> IF x = id THEN [Zero8 EXCEPT ![b] = 1] ELSE table[x]]
Empty == [app |-> <<>>, ctx |-> <<>>, ecu |-> <<>>, nonverbose |-> FALSE]        \* <<>> = the function with empty domain
EcuKey(h) == IF IsSome(h.ecu) THEN h.ecu[1] ELSE NoneId
Collect(c, h) ==
  LET b == Bucket(h) IN
  [app |-> IF IsSome(h.ext) THEN Bump(c.app, h.ext[1].ap, b) ELSE c.app,
   ctx |-> IF IsSome(h.ext) THEN Bump(c.ctx, h.ext[1].ct, b) ELSE c.ctx,
   ecu |-> Bump(c.ecu, EcuKey(h), b),
   nonverbose |-> c.nonverbose \/ ~(IsSome(h.ext) /\ h.ext[1].verb)]
RECURSIVE CollectAll(_, _)
CollectAll(c, hs) == IF hs = <<>> THEN c ELSE CollectAll(Collect(c, Head(hs)), Tail(hs))
Summary(hs) == CollectAll(Empty, hs)
\* merge of two summaries: bucket-wise sum per id
Add8(x, y) == [i \in 1..8 |-> x[i] + y[i]]
MergeT(t, u) == [id \in DOMAIN t \cup DOMAIN u |-> IF id \in DOMAIN t /\ id \in DOMAIN u THEN Add8(t[id], u[id]) ELSE IF id \in DOMAIN t THEN t[id] ELSE u[id]]
Merge(a, b) == [app |-> MergeT(a.app, b.app), ctx |-> MergeT(a.ctx, b.ctx), ecu |-> MergeT(a.ecu, b.ecu), nonverbose |-> a.nonverbose \/ b.nonverbose]
\* ---- the independent tally: for every id, count the messages carrying it per bucket
Count(hs, P(_)) == Cardinality({i \in 1..Len(hs) : P(hs[i])})
TallyT(hs, Key(_), Has(_)) ==
  LET ids == {Key(hs[i]) : i \in {j \in 1..Len(hs) : Has(hs[j])}} IN
  [id \in ids |-> [b \in 1..8 |-> Cardinality({i \in 1..Len(hs) : Has(hs[i]) /\ Key(hs[i]) = id /\ Bucket(hs[i]) = b})]]
Tally(hs) ==
  LET HasExt(h) == IsSome(h.ext)  Always(h) == TRUE
      Ap(h) == h.ext[1].ap  Ct(h) == h.ext[1].ct IN
  [app |-> TallyT(hs, Ap, HasExt), ctx |-> TallyT(hs, Ct, HasExt), ecu |-> TallyT(hs, EcuKey, Always),
   nonverbose |-> \E i \in 1..Len(hs) : ~(IsSome(hs[i].ext) /\ hs[i].ext[1].verb)]
Total(table) == LET RECURSIVE S(_) S(D) == IF D = {} THEN 0 ELSE LET x == CHOOSE x \in D : TRUE IN
                      table[x][1] + table[x][2] + table[x][3] + table[x][4] + table[x][5] + table[x][6] + table[x][7] + table[x][8] + S(D \ {x})
                IN S(DOMAIN table)
=============================================================================
