------------------------------- MODULE DltMisc -------------------------------
(* The rest of the public surface of the modelled modules (growth beyond the *)
(* listed properties, DESIGN section 10): service-id names, control type     *)
(* value <-> enum, type width, argument count, log level -> log crate level. *)
EXTENDS Naturals, Sequences, Bytes
\* AUTOSAR DLT control service ids 0x01 .. 0x23 (PRS_Dlt chapter on control messages)
ServiceNames == <<"set_log_level", "set_trace_status", "get_log_info", "get_default_log_level", "store_configuration", "restore_to_factory_default",
  "set_com_interface_status", "set_com_interface_max_bandwidth", "set_verbose_mode", "set_message_filtering", "set_timing_packets", "get_local_time",
  "set_use_ecuid", "set_use_session_id", "set_use_timestamp", "set_use_extended_header", "set_default_log_level", "set_default_trace_status",
  "get_software_version", "message_buffer_overflow", "get_default_trace_status", "get_com_interfacel_status", "get_log_channel_names",
  "get_com_interface_max_bandwidth", "get_verbose_mode_status", "get_message_filtering_status", "get_use_ecuid", "get_use_session_id",
  "get_use_timestamp", "get_use_extended_header", "get_trace_status", "set_log_channel_assignment", "set_log_channel_threshold",
  "get_log_channel_threshold", "buffer_overflow_notification">>
ServiceName(id) == IF id \in 1..35 THEN Some(ServiceNames[id]) ELSE None
\* ControlType: 1 request, 2 response, anything else unknown(n); value() is the inverse
ControlOf(n) == CASE n = 1 -> <<"request", 1>> [] n = 2 -> <<"response", 2>> [] OTHER -> <<"unknown", n>>
\* TypeInfo::type_width: bits of the numeric kinds, 0 otherwise
TypeWidth(kind, w) == IF kind \in {"sint", "uint", "sfp", "ufp", "float"} THEN w ELSE 0
\* PayloadContent::arg_count: arguments of a verbose payload / slices of a network trace (saturating at 255 is NOT what `as u8` does: it wraps)
ArgCount(p) == IF p[1] \in {"v", "nw"} THEN Len(p[2]) % 256 ELSE 0
\* LogLevel -> log::Level
LogCrateLevel(mtin) == CASE mtin \in {1, 2} -> "ERROR" [] mtin = 3 -> "WARN" [] mtin = 4 -> "INFO" [] mtin = 5 -> "DEBUG" [] OTHER -> "TRACE"
=============================================================================
