SPECIFICATION Spec
CONSTANTS MaxMsgs = 4  Emit = TRUE
INVARIANTS EqualsTally Conservation MergeIsSum PartsConserve Emitter
CHECK_DEADLOCK FALSE
