------------------------------ MODULE MCFibex ------------------------------
(* Bounded instances over FibexModel (abstract models, layouts, rendering,  *)
(* intended model, damage):                                                 *)
(*   Mode = "intact": one state per (model, layout): LoadIsIntended,        *)
(*                    LookupIsIntended (C11)                                *)
(*   Mode = "damage": the loader machine stepped token by token on every    *)
(*                    damaged rendering: LoaderTerminates (C12)             *)
EXTENDS FibexModel
CONSTANTS Mode, Emit

\* ---------------------------------------------------------------- the instances
VARIABLES stage, model, layout, dmg, st
vars == <<stage, model, layout, dmg, st>>
NoLayout == [perm |-> 1, inst |-> 1, sect |-> 1, split |-> 1, ws |-> FALSE]
Init == stage = "start" /\ model = <<>> /\ layout = NoLayout /\ dmg = <<"none">> /\ st = <<>>
PickModel == stage = "start" /\ stage' = "m" /\ model' \in Models /\ UNCHANGED <<layout, dmg, st>>
PickLayout == stage = "m" /\ layout' \in LayoutsFor(model) /\ stage' = (IF Mode = "intact" THEN "doc" ELSE "l") /\ UNCHANGED <<model, dmg, st>>
Doc == Render(model, layout)
PickDamage == stage = "l" /\ LET n == Len(AllToks(Doc)) IN
                 \E d \in {<<"cut", c>> : c \in 0..n} \cup {<<"del", c>> : c \in 1..n} \cup {<<"attr", c>> : c \in {k \in 1..n : AllToks(Doc)[k].k \in {"S", "M"} /\ (IsSome(AllToks(Doc)[k].id) \/ IsSome(AllToks(Doc)[k].ref) \/ IsSome(AllToks(Doc)[k].base))}} :
                    dmg' = d /\ st' = (IF Damaged(Doc, d) = <<>> THEN [phase |-> "refused", result |-> None] ELSE Init0(Damaged(Doc, d)))
              /\ stage' = "run" /\ UNCHANGED <<model, layout>>
RunStep == stage = "run" /\ ~Done(st) /\ st' = FullStep(st) /\ UNCHANGED <<stage, model, layout, dmg>>
Next == PickModel \/ PickLayout \/ PickDamage \/ RunStep
Spec == Init /\ [][Next]_vars /\ WF_vars(RunStep)

\* ---- C11
LoadIsIntended == stage = "doc" => Outcome(Doc) = Intended(model)
LookupIsIntended == stage = "doc" => LET o == Outcome(Doc)  w == Intended(model) IN
   o # None => \A idt \in {"ID_1", "ID_2", "ID_3"} : \A x \in {None, Some([ap |-> "APP", ct |-> "CTX"]), Some([ap |-> "CTX", ct |-> "APP"])} :
      Lookup(o[1], idt, x) = (IF IsSome(x) THEN (IF <<x[1].ct, x[1].ap, idt>> \in DOMAIN w[1].frame_map_with_key THEN Some(w[1].frame_map_with_key[<<x[1].ct, x[1].ap, idt>>]) ELSE None)
                                           ELSE (IF idt \in DOMAIN w[1].frame_map THEN Some(w[1].frame_map[idt]) ELSE None))
\* ---- C12
DoneRun == stage = "run" /\ Done(st)
Terminated == [](stage = "run" => <>DoneRun)          \* every load, once started, ends with a model or a refusal
\* the one-shot evaluation used for trace validation is the same machine
RunAgrees == (stage = "run" /\ Done(st)) => Load(Damaged(Doc, dmg)).phase = st.phase

\* ---- replay cases
MapSet(f) == {<<k, f[k]>> : k \in DOMAIN f}
OutJ(o) == IF o = None THEN [v |-> "refused"] ELSE [v |-> "model", frame_map |-> MapSet(o[1].frame_map), keyed |-> MapSet(o[1].frame_map_with_key)]
\* what the code and the machine do is among what the statement allows
IntendedAccepted == stage = "doc" => Intended(model) \in Accept(model)
EmitDoc == (Emit /\ stage = "doc") => PrintT(<<"REPLAY", ToJson([mode |-> "load", files |-> Doc, expect |-> OutJ(Intended(model)),
                                                                   accept |-> SetToSeq({OutJ(x) : x \in Accept(model)})])>>)
EmitDamaged == (Emit /\ stage = "run" /\ Done(st)) => PrintT(<<"REPLAY", ToJson([mode |-> "damaged", files |-> Damaged(Doc, dmg), dmg |-> dmg, expect |-> [v |-> st.phase]])>>)
=============================================================================
