----------------------------- MODULE MCSession -----------------------------
(* Exhaustive instance of SliceSession (C04, C06, C09): buffers assembled   *)
(* from tiny message templates - including malformed payload encodings -    *)
(* and junk; every sequence of Parse(filter) / Consume calls.               *)
EXTENDS SliceSession, Json
CONSTANTS MaxPieces, Emit
SH == <<68, 76, 84, 1, 9, 0, 0, 0, 8, 0, 0, 0, 69, 67, 85, 0>>
Ext(msin, noar, ap) == <<msin, noar, ap, 0, 0, 0, 67, 0, 0, 0>>
\* name |-> bytes (without storage header)
Templates == [
  nv    |-> <<32, 1, 0, 8, 1, 2, 3, 4>>,                                              \* no extended header
  vbool |-> <<33, 2, 0, 19>> \o Ext(65, 1, 65) \o <<16, 0, 0, 0, 1>>,                 \* log info, app "A", one bool
  vdbg  |-> <<33, 3, 0, 19>> \o Ext(81, 1, 66) \o <<16, 0, 0, 0, 1>>,                 \* log debug, app "B"
  vleft |-> <<33, 4, 0, 22>> \o Ext(65, 1, 65) \o <<16, 0, 0, 0, 1, 7, 7, 7>>,        \* arguments shorter than the declared payload
  vover |-> <<33, 5, 0, 18>> \o Ext(65, 1, 65) \o <<16, 0, 0, 0>>,                    \* argument runs past the declared payload (the byte after it belongs to the next message)
  vmany |-> <<33, 6, 0, 19>> \o Ext(65, 2, 65) \o <<16, 0, 0, 0, 1>>,                 \* NOAR too large
  vfew  |-> <<33, 7, 0, 24>> \o Ext(65, 1, 65) \o <<16, 0, 0, 0, 1, 16, 0, 0, 0, 0>>, \* NOAR too small
  ctl   |-> <<33, 8, 0, 16>> \o Ext(38, 0, 65) \o <<17, 0>>,                          \* control response
  ecu   |-> <<37, 9, 0, 23, 69, 0, 0, 0>> \o Ext(65, 1, 65) \o <<16, 0, 0, 0, 1>>,    \* with ECU id "E"
  bad   |-> <<33, 10, 0, 13>> \o Ext(65, 0, 65)                                        \* declared length below the headers
]
Names == DOMAIN Templates
JunkSet == {<<68, 76>>, <<1, 2, 3>>, <<68, 76, 84>>, <<0>>}
Piece(n, sh) == IF sh THEN SH \o Templates[n] ELSE Templates[n]
Cfg(min, app, ecu, appc) == [min |-> min, app |-> app, ctx |-> None, ecu |-> ecu, appc |-> appc, ctxc |-> 0]
FilterSet == {None, Some(Cfg(Some(4), None, None, 0)), Some(Cfg(None, Some(<<<<66>>>>), None, 0)), Some(Cfg(None, Some(<<<<65>>>>), None, 2)),
              Some(Cfg(Some(9), None, Some(<<<<70>>>>), 0))}

VARIABLES stage, buf, sh, np, pos, live, junky
vars == <<stage, buf, sh, np, pos, live, junky>>
Init == stage = "build" /\ buf = <<>> /\ sh \in BOOLEAN /\ np = 0 /\ pos = 0 /\ live = TRUE /\ junky = FALSE
AddPiece == stage = "build" /\ np < MaxPieces /\ \E n \in Names : buf' = buf \o Piece(n, sh) /\ np' = np + 1 /\ UNCHANGED <<stage, sh, pos, live, junky>>
AddJunk == stage = "build" /\ sh /\ np < MaxPieces /\ ~junky /\ \E j \in JunkSet : buf' = buf \o j /\ junky' = TRUE /\ UNCHANGED <<stage, sh, np, pos, live>>
Start == stage = "build" /\ stage' = "run" /\ UNCHANGED <<buf, sh, np, pos, live, junky>>
Parse == stage = "run" /\ live /\ \E flt \in FilterSet : LET st == StepParse(buf, pos, sh, flt) IN pos' = st.pos /\ live' = st.live
         /\ UNCHANGED <<stage, buf, sh, np, junky>>
Consume == stage = "run" /\ live /\ sh /\ LET st == StepConsume(buf, pos) IN pos' = st.pos /\ live' = st.live
         /\ UNCHANGED <<stage, buf, sh, np, junky>>
Next == AddPiece \/ AddJunk \/ Start \/ Parse \/ Consume
Spec == Init /\ [][Next]_vars

Running == stage = "run"
\* C04 "makes progress" and "terminates"
Progress == [][(Running /\ live') => (pos' > pos /\ pos' <= Len(buf))]_vars
InBuffer == pos <= Len(buf)
\* C04 "stays aligned with message boundaries" (buffers without junk: boundaries are given by the length fields alone)
Aligned == (Running /\ ~junky) => pos \in Bounds(buf, sh)
\* C04 "the presence of a filter never changes where the next message is looked for"
FilterIndependentCursor == (Running /\ live) =>
   LET d0 == ParseAt(buf, pos, sh, None) IN
   \A flt \in FilterSet : LET d == ParseAt(buf, pos, sh, flt) IN
      /\ OkClass(d0.v) => (OkClass(d.v) /\ d.consumed = d0.consumed)
      /\ d0.v = "inc" => d.v = "inc"
      /\ d0.v = "rej" => d.v \in {"rej", "filtered"}
      /\ d.v = "filtered" => d.n + HdrsLen(buf[pos + (IF sh THEN FindPattern(Rest(buf, pos)) + 15 ELSE 0) + 1]) + (IF sh THEN FindPattern(Rest(buf, pos)) + 15 ELSE 0) = d.consumed
\* the skipper and the parser agree on the frame whenever the remainder starts with a storage header
ParseConsumeAgree == (Running /\ live /\ sh) =>
   LET d == ParseAt(buf, pos, sh, None)  c == ConsumeAt(buf, pos) IN
   (c.v = "skipped" /\ OkClass(d.v)) => c.consumed = d.consumed
\* C06: a stream of intact messages with junk between them is recovered completely and in order
Emitter == (Emit /\ Running /\ pos = 0 /\ live) =>
   /\ \A flt \in FilterSet : PrintT(<<"REPLAY", ToJson([ev |-> [op |-> "session", api |-> "parse", buf |-> buf, sh |-> sh, flt |-> flt],
                                                        expect |-> RunSession(buf, 0, sh, flt, "parse", 64),
                                                        frames |-> [q \in 1..(Len(buf) + 1) |-> IF sh THEN {FrameAtOcc(Rest(buf, q - 1), kk) : kk \in Occurrences(Rest(buf, q - 1))} ELSE {FrameOf(Rest(buf, q - 1), FALSE, "parse")}]])>>)
   /\ sh => PrintT(<<"REPLAY", ToJson([ev |-> [op |-> "session", api |-> "consume", buf |-> buf, sh |-> sh, flt |-> None],
                                       expect |-> RunSession(buf, 0, sh, None, "consume", 64),
                                       frames |-> [q \in 1..(Len(buf) + 1) |-> {FrameAtOcc(Rest(buf, q - 1), kk) : kk \in Occurrences(Rest(buf, q - 1))}]])>>)
=============================================================================
