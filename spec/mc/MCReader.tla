------------------------------ MODULE MCReader ------------------------------
(* Exhaustive exploration of every schedule of a byte source for a family   *)
(* of streams: all partitions of the stream into read results, all          *)
(* placements of Interrupted (blocking) / Pending (async), for well-formed  *)
(* sequences, every truncation, hostile declared lengths, arbitrary bytes.  *)
(* No history variable (the schedule is not part of the state).             *)
EXTENDS Reader, TLC
CONSTANTS Async, MaxChunk, Rich      \* Rich: additionally streams with a 300-byte message (length field with a non-zero high byte)
M1 == <<32, 1, 0, 6, 7, 7>>              \* 6-byte message (no extended header; the reader only looks at the length field)
M2 == <<32, 2, 0, 4>>                    \* minimal message: just the standard header
M3 == <<32, 3, 0, 9, 1, 2, 3, 4, 5>>
SHdr == <<68, 76, 84, 1, 0, 0, 0, 0, 0, 0, 0, 0, 69, 0, 0, 0>>
Hostile(n) == <<32, 4, 0, n, 9, 9>>      \* declares a length of n < 4
Whole(sh) == IF sh THEN SHdr \o M1 \o SHdr \o M2 \o SHdr \o M3 ELSE M1 \o M2 \o M3
Family(sh) ==  {SubSeq(Whole(sh), 1, c) : c \in 0..Len(Whole(sh))}                                   \* every truncation
          \cup {(IF sh THEN SHdr ELSE <<>>) \o M1 \o (IF sh THEN SHdr ELSE <<>>) \o Hostile(n) : n \in 0..3}
          \cup {<<255, 255, 255, 255, 255>>, <<0, 0, 0, 0>>, <<1, 2, 3>>}
Long == <<32, 5, 1, 44>> \o [i \in 1..296 |-> i % 251]            \* LEN = 0x012C = 300
WholeRich(shh) == IF shh THEN SHdr \o M2 \o SHdr \o Long \o SHdr \o M1 ELSE M2 \o Long \o M1
FamilyRich(shh) == {SubSeq(WholeRich(shh), 1, c) : c \in {k \in 0..Len(WholeRich(shh)) : k % 7 = 0 \/ k < 30 \/ k > Len(WholeRich(shh)) - 30}}
VARIABLES stream, sh, s
vars == <<stream, sh, s>>
Init == sh \in BOOLEAN /\ stream \in (Family(sh) \cup (IF Rich THEN FamilyRich(sh) ELSE {})) /\ s = Init0
DoFill == Wants(s, sh) /\ s.fed < Len(stream) /\ \E c \in (1..MaxChunk) \cup {Len(stream) - s.fed} : s.fed + c <= Len(stream) /\ s' = Fill(s, c)
Retry == Wants(s, sh) /\ s' = s                      \* ErrorKind::Interrupted (blocking) resp. Poll::Pending (async): nothing changes
DoEof == Wants(s, sh) /\ s.fed = Len(stream) /\ s' = SrcEof(s)
DoHdr == HdrEnabled(s, sh) /\ s' = HdrDone(stream, s, sh)
DoBody == BodyEnabled(s) /\ s' = BodyDone(s)
DoEnd == EndEnabled(s, sh) /\ s' = End(s)
Progressing == (DoFill \/ DoEof \/ DoHdr \/ DoBody \/ DoEnd) /\ UNCHANGED <<stream, sh>>
Next == (Progressing \/ (Retry /\ UNCHANGED <<stream, sh>>))
Spec == Init /\ [][Next]_vars /\ WF_vars(Progressing)
\* C07: what is delivered is always a prefix of the stream cut at the declared lengths
Safe == IsPrefixSeq(s.out, Cut(stream, sh)) /\ s.taken = SumSeq(s.out) /\ s.taken <= s.fed /\ s.fed <= Len(stream)
\* every message completely contained in the stream is delivered; the tail yields end-of-stream or an error, never a message
AtEnd == s.term # "run" => (s.out = Cut(stream, sh) /\ s.term \in AllowedEnd(stream, sh))
\* blocking and async differ only in the name of the retry action, hence deliver the same and end the same (C08)
Terminates == <>(s.term # "run")
\* the terminal outcome is a function of the stream alone (not of the schedule)
EndIsDetermined == s.term # "run" =>
   s.term = (IF TailLen(stream, sh) < HL(sh) THEN "eos" ELSE "err")
=============================================================================
