------------------------------ MODULE MCCodes ------------------------------
(* C14 on the model: all 256 HTYP, all 256 MSIN, and all 2^18 type-info     *)
(* words over the bits the format defines (0..17).                          *)
EXTENDS DltCodes, TLC
CONSTANT B2Set              \* values of byte 2 (bits 16..23): {0,1,2,3} covers bits 16, 17
VARIABLES stage, b0, b1, b2
vars == <<stage, b0, b1, b2>>
Init == stage = 0 /\ b0 = 0 /\ b1 = 0 /\ b2 = 0
Next == \/ stage = 0 /\ stage' = 1 /\ b0' \in 0..255 /\ UNCHANGED <<b1, b2>>
        \/ stage = 1 /\ stage' = 2 /\ b1' \in 0..255 /\ UNCHANGED <<b0, b2>>
        \/ stage = 2 /\ stage' = 3 /\ b2' \in B2Set /\ UNCHANGED <<b0, b1>>
Spec == Init /\ [][Next]_vars
W == <<0, b2, b1, b0>>       \* big-endian image
HeaderCodes == stage = 1 =>      \* b0 ranges over all bytes
  /\ HtypEnc(HtypDec(b0)) = b0 /\ HtypDec(b0).ver \in 0..7
  /\ StdLen(b0) = 4 + 4 * (B(HtypDec(b0).weid) + B(HtypDec(b0).wsid) + B(HtypDec(b0).wtms))
  /\ MsinEnc(MsinDec(b0).verb, MsinDec(b0).mt) = b0 /\ MsinDec(b0).mt[1] \in 0..7 /\ MsinDec(b0).mt[2] \in 0..15
AcceptRule == stage = 3 => ((TiDec(W) # None) <=> Accepts(W))
ReencodeLaws == (stage = 3 /\ TiDec(W) # None) =>
  LET d == TiDec(W)[1]  enc == TiEnc(d) IN
  /\ TiDec(enc) = Some(d)                                                               \* encoding decodes to the same description
  /\ \A k \in 0..31 : TiBit(W, k) # TiBit(enc, k) => k \in UnusedBits(d.kind)           \* differs only in unused bits
  /\ \A k \in UnusedBits(d.kind) : TiBit(enc, k) = 0
  /\ TiEnc(TiDec(enc)[1]) = enc                                                         \* canonical words are fixed points
=============================================================================
