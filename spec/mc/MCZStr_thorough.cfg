SPECIFICATION Spec
CONSTANTS MaxLen = 5  Emit = TRUE
INVARIANTS AutomatonIsDeclarative FieldRule IdsObeyRule Emitter
CHECK_DEADLOCK FALSE
