SPECIFICATION SpecM
CONSTANTS MaxArgs = 1  Rich = FALSE  AllFlags = TRUE  Emit = TRUE  SingleAllFlags = TRUE  RichFlips = TRUE
INVARIANTS Total Consumption StableThm ConsumeAgrees EmitMut Dialect
CHECK_DEADLOCK FALSE
