SPECIFICATION Spec
CONSTANTS MaxJunk = 5  Emit = TRUE
INVARIANTS SearchIsFirstOccurrence JunkSkipped StreamRecovered Emitter
CHECK_DEADLOCK FALSE
