------------------------------ MODULE MCFilter ------------------------------
(* C09: the operational filter decision (order of checks in the parser)      *)
(* equals the declarative rule of the property statement, over               *)
(*   part "lvl": every numeric minimum level 0..255 (and none) x every       *)
(*               MSTP x MTIN, ids fixed;                                     *)
(*   part "ids": every combination of app / ctx / ecu lists (absent, empty,  *)
(*               singleton, two ids, duplicate) and declared counts, x       *)
(*               messages with and without extended header and ECU id.       *)
(* Each (config, message) pair is printed as a replay case with the verdict  *)
(* the reference parser gives under that filter.                             *)
EXTENDS DltCodec, DltFilter, TLC, Json
CONSTANTS Levels, Emit
IdA == <<65>>  IdB == <<66>>  IdC == <<67>>  IdE == <<69>>  IdF == <<70>>
LongId == <<68, 73, 65, 71, 78, 79, 83, 73, 83>>      \* an id no message can carry (9 bytes); it still counts as a member of the set
Lists(x, y) == {None, Some(<<>>), Some(<<x>>), Some(<<x, y>>), Some(<<x, x>>), Some(<<x, LongId>>)}
CfgLvl == {[min |-> m, app |-> a, ctx |-> None, ecu |-> None, appc |-> 0, ctxc |-> 0] : m \in {None} \cup {Some(n) : n \in Levels}, a \in {None, Some(<<IdA>>)}}
CfgIds == {[min |-> m, app |-> a, ctx |-> c, ecu |-> e, appc |-> ac, ctxc |-> cc] :
             m \in {None, Some(3)}, a \in Lists(IdA, IdB), c \in {None, Some(<<>>), Some(<<IdC>>)}, e \in {None, Some(<<>>), Some(<<IdE>>)}, ac \in 0..3, cc \in 0..2}
HdrLvl == {[ext |-> Some([verb |-> vb, noar |-> 1, mt |-> <<tp, ti>>, ap |-> IdA, ct |-> IdC]), ecu |-> None] : tp \in 0..7, ti \in 0..15, vb \in BOOLEAN}     \* the level rule does not look at the verbose flag
HdrIds == {[ext |-> x, ecu |-> e] : x \in {None} \cup {Some([verb |-> TRUE, noar |-> 1, mt |-> mt, ap |-> ap, ct |-> ct]) : mt \in {<<0, 4>>, <<0, 9>>, <<3, 1>>}, ap \in {IdA, IdB, IdC}, ct \in {IdC, <<68>>}},
                                   e \in {None, Some(IdE), Some(IdF)}}
VARIABLES part, cfg, hd
vars == <<part, cfg, hd>>
Init == part = "start" /\ cfg = <<>> /\ hd = <<>>
PickCfg == part = "start" /\ \E p \in {"lvl", "ids"} : part' = p /\ cfg' \in (IF p = "lvl" THEN CfgLvl ELSE CfgIds) /\ hd' = <<>>
PickHdr == part \in {"lvl", "ids"} /\ hd = <<>> /\ hd' \in (IF part = "lvl" THEN HdrLvl ELSE HdrIds) /\ UNCHANGED <<part, cfg>>
Next == PickCfg \/ PickHdr
Spec == Init /\ [][Next]_vars
Ready == hd # <<>>
StdHdr == [ecu |-> hd.ecu]
OperationalIsDeclarative == Ready => DroppedOp(cfg, StdHdr, hd.ext) = Dropped(cfg, StdHdr, hd.ext)
OutOfRangeLevelsIgnored == (Ready /\ IsSome(cfg.min) /\ cfg.min[1] \notin 1..6) => Dropped(cfg, StdHdr, hd.ext) = Dropped([cfg EXCEPT !.min = None], StdHdr, hd.ext)
\* the message carrying these headers (payload: one bool argument, or a bare non-verbose id without extended header)
Msg == LET x == hd.ext  pay == IF IsSome(x) THEN <<16, 0, 0, 0, 1>> ELSE <<1, 2, 3, 4>>
           htyp == 32 + (IF IsSome(x) THEN 1 ELSE 0) + (IF IsSome(hd.ecu) THEN 4 ELSE 0)
           len == HdrsLen(htyp) + Len(pay) IN
       <<htyp, 5, len \div 256, len % 256>> \o (IF IsSome(hd.ecu) THEN Pad(hd.ecu[1], 4) ELSE <<>>)
       \o (IF IsSome(x) THEN <<MsinEnc(x[1].verb, x[1].mt), x[1].noar>> \o Pad(x[1].ap, 4) \o Pad(x[1].ct, 4) ELSE <<>>) \o pay \o <<7, 7>>
FilterOnlyReplaces == Ready =>
   LET Flt(h, x) == Dropped(cfg, h, x)  d == ParseVerdictF(Msg, FALSE, Flt)  d0 == ParseVerdict(Msg, FALSE) IN
   /\ d0.v = "msg" /\ d0.consumed = Len(Msg) - 2
   /\ IF Dropped(cfg, StdHdr, hd.ext) THEN d.v = "filtered" /\ d.n = d0.m.h.plen /\ d.consumed = d0.consumed ELSE d = d0
Emitter == (Emit /\ Ready) => LET Flt(h, x) == Dropped(cfg, h, x) IN
   PrintT(<<"REPLAY", ToJson([ev |-> [op |-> "parse", buf |-> Msg, sh |-> FALSE, flt |-> <<cfg>>], expect |-> ParseVerdictF(Msg, FALSE, Flt),
                              drop |-> Dropped(cfg, StdHdr, hd.ext)])>>)
=============================================================================
