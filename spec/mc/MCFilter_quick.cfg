SPECIFICATION Spec
CONSTANTS Levels = {0, 1, 3, 6, 7, 255}  Emit = TRUE
INVARIANTS OperationalIsDeclarative OutOfRangeLevelsIgnored FilterOnlyReplaces Emitter
CHECK_DEADLOCK FALSE
