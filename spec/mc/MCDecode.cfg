SPECIFICATION Spec
CONSTANTS EofRefuses = TRUE  Tier = "quick"  Emit = TRUE
INVARIANTS NoModel Miss Exact Short NoFields Emitter
CHECK_DEADLOCK FALSE
