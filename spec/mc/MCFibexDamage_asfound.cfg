SPECIFICATION Spec
CONSTANTS EofRefuses = FALSE  Tier = "damage-quick"  Mode = "damage"  Emit = FALSE
INVARIANTS RunAgrees EmitDamaged
PROPERTY Terminated
CHECK_DEADLOCK FALSE
