----------------------------- MODULE MCConstruct -----------------------------
(* C13: non-verbose argument construction.  All lists of up to MaxTypes of    *)
(* the 17 supported signal types x both byte orders x {exact payload, every   *)
(* proper prefix, trailing bytes, invalid UTF-8 in a string field}.           *)
EXTENDS DltCodec, TLC, Json
CONSTANTS MaxTypes, Emit
Ty(k, w) == [kind |-> k, w |-> w, cod |-> IF k = "str" THEN 1 ELSE 0, vari |-> FALSE, trai |-> FALSE]
Supported == {Ty("bool", 0), Ty("str", 0), Ty("raw", 0), Ty("float", 32), Ty("float", 64)}
             \cup {Ty(k, w) : k \in {"sint", "uint"}, w \in {8, 16, 32, 64, 128}} \cup {[Ty("str", 0) EXCEPT !.cod = 0, !.vari = TRUE]}
FixedPoint == {Ty("sfp", 32), Ty("ufp", 64)}
\* one sample field per type: <<encoded bytes, expected value>> written independently of ConstructArgs
Field(t, be, i) ==
  LET n == t.w \div 8  img == [j \in 1..n |-> 16 * i + j] IN
  CASE t.kind = "bool" -> <<<<i>>, <<"bool", <<i>>>>>>
    [] t.kind = "sint" -> <<Norm(img, be), <<"i", img>>>>
    [] t.kind = "uint" -> <<Norm(img, be), <<"u", img>>>>
    [] t.kind = "float" -> <<Norm(img, be), <<"f", img>>>>
    [] t.kind = "str" -> <<U16Bytes(4, be) \o <<97, 195, 169, 0>>, <<"str", <<97, 195, 169, 0>>>>>>      \* trailing NUL stays (named deviation)
    [] t.kind = "raw" -> <<U16Bytes(3, be) \o <<0, 255, i>>, <<"raw", <<0, 255, i>>>>>>
RECURSIVE CatF(_, _, _)
CatF(types, be, i) == IF i > Len(types) THEN <<>> ELSE Field(types[i], be, i)[1] \o CatF(types, be, i + 1)
VARIABLES types, be
Init == types = <<>> /\ be \in BOOLEAN
Next == Len(types) < MaxTypes /\ \E t \in Supported : types' = Append(types, t) /\ be' = be
Spec == Init /\ [][Next]_<<types, be>>
Exact == CatF(types, be, 1)
ExactDecodes == LET d == ConstructArgs(types, Exact, be) IN
   /\ d.v = "ok" /\ Len(d.args) = Len(types)
   /\ \A i \in 1..Len(types) : LET a == d.args[i]  t == types[i] IN
        /\ a.kind = t.kind /\ a.w = t.w /\ a.cod = t.cod /\ a.vari = t.vari /\ a.trai = t.trai
        /\ a.name = None /\ a.unit = None /\ a.fp = None
        /\ a.val = Field(t, be, i)[2]
TrailingIgnored == ConstructArgs(types, Exact \o <<9, 9, 9>>, be) = ConstructArgs(types, Exact, be)
ShortRefused == \A c \in 0..(Len(Exact) - 1) : ConstructArgs(types, SubSeq(Exact, 1, c), be).v = "err"
BadUtf8Refused == \A i \in 1..Len(types) : types[i].kind = "str" =>
   LET pre == CatF(SubSeq(types, 1, i - 1), be, 1)
       bad == pre \o U16Bytes(2, be) \o <<195, 40>> \o SubSeq(Exact, Len(pre) + 7, Len(Exact)) IN
   ConstructArgs(types, bad, be).v = "err"
FixedPointOutside == \A t \in FixedPoint : ConstructArgs(Append(types, t), Exact \o <<1, 2, 3, 4, 5, 6, 7, 8, 9, 10, 11, 12, 13, 14, 15, 16>>, be).v = "any"
Case(data) == [ev |-> [op |-> "construct", be |-> be, types |-> types, data |-> data], expect |-> ConstructArgs(types, data, be)]
Emitter == Emit =>
  /\ PrintT(<<"REPLAY", ToJson(Case(Exact))>>)
  /\ PrintT(<<"REPLAY", ToJson(Case(Exact \o <<9, 9, 9>>))>>)
  /\ \A c \in 0..(Len(Exact) - 1) : PrintT(<<"REPLAY", ToJson(Case(SubSeq(Exact, 1, c)))>>)
  /\ \A i \in 1..Len(types) : types[i].kind = "str" =>
        LET pre == CatF(SubSeq(types, 1, i - 1), be, 1) IN
        PrintT(<<"REPLAY", ToJson(Case(pre \o U16Bytes(2, be) \o <<195, 40>> \o SubSeq(Exact, Len(pre) + 7, Len(Exact))))>>)
=============================================================================
