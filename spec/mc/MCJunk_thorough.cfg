SPECIFICATION Spec
CONSTANTS MaxJunk = 7  Emit = TRUE
INVARIANTS SearchIsFirstOccurrence JunkSkipped StreamRecovered Emitter
CHECK_DEADLOCK FALSE
