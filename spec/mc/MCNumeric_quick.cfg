SPECIFICATION Spec
CONSTANTS Emit = TRUE
INVARIANTS Arithmetic SameInstantMs SameInstantUs CaseAnalysis Boundary EmitTs EmitReal
CHECK_DEADLOCK FALSE
