SPECIFICATION Spec
CONSTANTS B2Set = {0, 1, 2, 3}
INVARIANTS HeaderCodes AcceptRule ReencodeLaws
CHECK_DEADLOCK FALSE
