SPECIFICATION Spec
CONSTANTS MaxMsgs = 3  Emit = TRUE
INVARIANTS EqualsTally Conservation MergeIsSum PartsConserve Emitter
CHECK_DEADLOCK FALSE
