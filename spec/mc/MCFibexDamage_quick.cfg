SPECIFICATION Spec
CONSTANTS EofRefuses = TRUE  Tier = "damage-quick"  Mode = "damage"  Emit = TRUE
INVARIANTS RunAgrees EmitDamaged
PROPERTY Terminated
CHECK_DEADLOCK FALSE
