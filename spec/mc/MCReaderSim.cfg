SPECIFICATION SpecS
CONSTANTS Async = FALSE  MaxChunk = 12  Rich = TRUE
INVARIANTS Safe AtEnd EmitSchedule
CHECK_DEADLOCK FALSE
