SPECIFICATION SpecS
CONSTANTS Async = FALSE  MaxChunk = 12
INVARIANTS Safe AtEnd EmitSchedule
CHECK_DEADLOCK FALSE
