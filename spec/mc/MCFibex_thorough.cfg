SPECIFICATION Spec
CONSTANTS EofRefuses = TRUE  Tier = "thorough"  Mode = "intact"  Emit = TRUE
INVARIANTS LoadIsIntended LookupIsIntended IntendedAccepted EmitDoc
CHECK_DEADLOCK FALSE
