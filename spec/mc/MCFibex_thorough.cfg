SPECIFICATION Spec
CONSTANTS EofRefuses = TRUE  Tier = "thorough"  Mode = "intact"  Emit = TRUE
INVARIANTS LoadIsIntended LookupIsIntended EmitDoc
CHECK_DEADLOCK FALSE
