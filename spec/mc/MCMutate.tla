------------------------------ MODULE MCMutate ------------------------------
(* The builder machine of MCCodec followed by one Mutate step: the decoder   *)
(* is total and three-valued on the mutation universe (C02, C03), what it    *)
(* returns re-serialises stably (C16), and consumption is what the length    *)
(* field declares (C04).  Every mutant is printed with the reference verdict *)
(* as a replay case for direction A.                                         *)
EXTENDS MCCodec
CONSTANT RichFlips     \* TRUE: all 8 bits of every header / leading payload byte; FALSE: all bits of HTYP, MSIN, type-info bytes, bit 0 elsewhere
VARIABLE mu            \* <<>> or the mutation applied to EncMessage(M)
Base == EncMessage(M)
Off == IF f.sh THEN 16 ELSE 0
Htyp == Base[Off + 1]
Hot(b) ==    \* positions whose every bit has a meaning of its own
  {Off + 1} \cup (IF f.ueh THEN {Off + StdLen(Htyp) + 1, Off + StdLen(Htyp) + 2} ELSE {})
           \cup {p \in (Off + HdrsLen(Htyp) + 1)..(Off + HdrsLen(Htyp) + 4) : p <= Len(b)}
FlipPos(b) == (Off + 1)..(IF Len(b) < Off + HdrsLen(Htyp) + 10 THEN Len(b) ELSE Off + HdrsLen(Htyp) + 10)
Mutations(b) ==
  LET real == Len(b) - Off  hdrs == HdrsLen(Htyp)  std == StdLen(Htyp) IN
       {<<"len", L>> : L \in {0, 3, 4, std - 1, std, hdrs - 1, hdrs, hdrs + 1, hdrs + 3, hdrs + 4, real - 1, real + 1, 65535} \cap 0..65535}
  \cup {<<"flip", p, bit>> : p \in FlipPos(b), bit \in 0..7}
  \cup {<<"zero2", p>> : p \in {q \in (Off + hdrs + 1)..(Len(b) - 1) : q <= Off + hdrs + 12}}
  \cup {<<"othermode">>, <<"cut", Len(b) - 1>>, <<"dup">>}
FlipBit(x, bit) == IF Bit(x, bit) = 1 THEN x - 2^bit ELSE x + 2^bit
Apply(b, m) ==
  CASE m[1] = "len"   -> [b EXCEPT ![Off + 3] = m[2] \div 256, ![Off + 4] = m[2] % 256]
    [] m[1] = "flip"  -> [b EXCEPT ![m[2]] = FlipBit(@, m[3])]
    [] m[1] = "zero2" -> [b EXCEPT ![m[2]] = 0, ![m[2] + 1] = 0]
    [] m[1] = "cut"   -> SubSeq(b, 1, m[2])
    [] m[1] = "dup"   -> b \o b
    [] OTHER          -> b
ModeOf(m) == IF m[1] = "othermode" THEN ~f.sh ELSE f.sh
Worth(b, m) == IF m[1] # "flip" THEN TRUE ELSE (RichFlips \/ m[2] \in Hot(b) \/ m[3] = 0)

InitM == Init /\ mu = <<>>
Mutate == /\ stage = "msg" /\ mu = <<>>
          /\ \E m \in Mutations(Base) : Worth(Base, m) /\ mu' = m
          /\ stage' = "mut" /\ UNCHANGED <<f, k, args>>
NextM == (Next /\ mu' = mu) \/ Mutate
SpecM == InitM /\ [][NextM]_<<vars, mu>>

IsMut == stage = "mut"
Buf == Apply(Base, mu)
D == ParseVerdict(Buf, ModeOf(mu))
Total == IsMut => D.v \in {"msg", "inc", "rej"}
Consumption == (IsMut /\ D.v = "msg") =>
   LET shm == ModeOf(mu)  kk == IF shm THEN FindPattern(Buf) ELSE 1  o == IF shm THEN kk + 15 ELSE 0 IN
   /\ D.consumed = o + U16(Buf, o + 3, TRUE) /\ D.consumed <= Len(Buf) /\ D.consumed > 0
   /\ D.m.h.plen = U16(Buf, o + 3, TRUE) - HdrsLen(Buf[o + 1])
StableThm == (IsMut /\ D.v = "msg") =>
   LET shm == ModeOf(mu)  b2 == EncMessage(D.m) IN
   Len(b2) = DeclaredLen(b2, shm) =>
      LET d2 == ParseVerdict(b2, shm) IN d2.v = "msg" /\ d2.m = D.m /\ d2.consumed = Len(b2) /\ EncMessage(d2.m) = b2
ConsumeAgrees == (IsMut /\ ModeOf(mu) /\ PrefixOfPattern(Buf)) =>     \* where both apply, the skipper and the parser agree on the frame
   LET c == ConsumeVerdict(Buf) IN (D.v = "msg" => c.v = "skipped" /\ c.consumed = D.consumed) /\ (c.v = "rej" => D.v # "msg")
CandidateFrames(b, shm) == IF shm THEN {FrameAtOcc(b, kk) : kk \in Occurrences(b)} ELSE {FrameOf(b, FALSE, "parse")}
EmitMut == (Emit /\ IsMut) => PrintT(<<"REPLAY", ToJson([ev |-> [op |-> "parse", buf |-> Buf, sh |-> ModeOf(mu), flt |-> <<>>], expect |-> D,
                                                                           frame |-> CandidateFrames(Buf, ModeOf(mu))])>>)

\* ---- dialect acceptance (C02): encodings real ECUs emit, evaluated once
Hdr(len, noar, msin) == <<33, 7, len \div 256, len % 256, msin, noar, 65, 0, 0, 0, 67, 84, 0, 0>>   \* v1, UEH, little endian, "A", "CT"
Dialect == stage = "start" =>
  /\ LET d == ParseVerdict(Hdr(19, 1, 65) \o <<17, 0, 0, 0, 1>>, FALSE) IN                     \* bool with TYLE = 1
       d.v = "msg" /\ d.m.p[2][1].kind = "bool" /\ d.m.p[2][1].val = <<"bool", <<1>>>> /\ d.m.x[1].ap = <<65>>
  /\ LET d == ParseVerdict(Hdr(19, 1, 65) \o <<16, 80, 252, 255, 0>>, FALSE) IN                \* FIXP on bool, STRU, bits 18..31
       d.v = "msg" /\ d.m.p[2][1].kind = "bool"
  /\ LET d == ParseVerdict(Hdr(26, 1, 65) \o <<0, 2, 0, 0, 6, 0, 97, 98, 0, 99, 100, 0>>, FALSE) IN   \* string with early NUL
       d.v = "msg" /\ d.m.p[2][1].val = <<"str", <<97, 98>>>> /\ d.consumed = 26
  /\ LET d == ParseVerdict(Hdr(24, 1, 65) \o <<0, 130, 0, 0, 4, 0, 111, 107, 195, 40>>, FALSE) IN      \* unterminated, invalid UTF-8 tail
       d.v = "msg" /\ d.m.p[2][1].val = <<"str", <<111, 107>>>>
  /\ ParseVerdict(Hdr(19, 1, 65) \o <<16, 1, 0, 0, 1>>, FALSE).v = "rej"                        \* ARAY bit
  /\ ParseVerdict(Hdr(19, 1, 65) \o <<48, 0, 0, 0, 1>>, FALSE).v = "rej"                        \* two kinds
  /\ ParseVerdict(Hdr(20, 1, 65) \o <<38, 0, 0, 0, 1, 2>>, FALSE).v = "rej"                     \* SINT with TYLE = 6
  /\ ParseVerdict(Hdr(14, 0, 38), FALSE).v = "rej"                                             \* control message without service id
  /\ ParseVerdict(Hdr(17, 0, 64) \o <<1, 2, 3>>, FALSE).v = "rej"                                            \* non-verbose shorter than a message id
  /\ ParseVerdict(Hdr(13, 0, 64), FALSE).v = "rej"                                             \* declared length below the headers
  /\ ParseVerdict(Hdr(19, 1, 65) \o <<17, 0, 0, 0>>, FALSE).v = "inc"
  /\ ParseVerdict(Hdr(18, 1, 65) \o <<17, 0, 0, 0, 1>>, FALSE).v = "rej"                        \* argument runs past the declared payload
  /\ LET d == ParseVerdict(Hdr(20, 1, 65) \o <<17, 0, 0, 0, 1, 9, 9>>, FALSE) IN d.v = "msg" /\ d.consumed = 20   \* left-over payload byte ignored
=============================================================================
