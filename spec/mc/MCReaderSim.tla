----------------------------- MODULE MCReaderSim -----------------------------
(* Schedule generator for direction A: MCReader plus a history variable that  *)
(* records the source's answers; run with `tlc -simulate` (the history        *)
(* variable makes exhaustive exploration pointless, see DESIGN section 1).    *)
(* At the end of each behaviour one replay case is printed: stream, schedule, *)
(* and what the property expects (the cut of the stream, allowed endings).    *)
EXTENDS MCReader, Json
VARIABLE sched          \* k > 0: the source returned k bytes; 0: Interrupted / Pending
InitS == Init /\ sched = <<>>
NextS == \/ DoFill /\ sched' = Append(sched, s'.fed - s.fed) /\ UNCHANGED <<stream, sh>>
         \/ Retry /\ Len(sched) < 40 /\ sched' = Append(sched, 0) /\ UNCHANGED <<stream, sh>>
         \/ (DoEof \/ DoHdr \/ DoBody \/ DoEnd) /\ sched' = sched /\ UNCHANGED <<stream, sh>>
SpecS == InitS /\ [][NextS]_<<vars, sched>>
EmitSchedule == s.term # "run" =>
   PrintT(<<"REPLAY", ToJson([stream |-> stream, sh |-> sh, sched |-> sched, expect |-> [out |-> Cut(stream, sh), allowed |-> AllowedEnd(stream, sh), model_end |-> s.term]])>>)
=============================================================================
