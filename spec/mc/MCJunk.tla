------------------------------- MODULE MCJunk -------------------------------
(* C06: storage-header resync.  Every junk string over an alphabet that      *)
(* contains the pattern bytes (so every partial pattern, overlap and full    *)
(* occurrence appears) up to length MaxJunk.                                 *)
EXTENDS SliceSession, Json
CONSTANTS MaxJunk, Emit
Alphabet == {68, 76, 84, 1, 88}
SH == <<68, 76, 84, 1, 9, 0, 0, 0, 8, 0, 0, 0, 69, 67, 85, 0>>
T1 == SH \o <<32, 1, 0, 8, 1, 2, 3, 4>>
T2 == SH \o <<33, 2, 0, 19, 65, 1, 65, 0, 0, 0, 67, 0, 0, 0, 16, 0, 0, 0, 1>>
Sfx == {<<>>, <<68, 76, 84>>, <<7>>}
VARIABLE junk
Init == junk = <<>>
Next == Len(junk) < MaxJunk /\ \E b \in Alphabet : junk' = Append(junk, b)
Spec == Init /\ [][Next]_junk
\* declarative: the least index at which the four pattern bytes occur
Occ(s) == {i \in 1..(Len(s) - 3) : SubSeq(s, i, i + 3) = Pattern}
FirstOcc(s) == IF Occ(s) = {} THEN 0 ELSE CHOOSE i \in Occ(s) : \A j \in Occ(s) : i <= j
SearchIsFirstOccurrence ==
  /\ FindPattern(junk) = FirstOcc(junk)
  /\ Forward(junk) = IF FirstOcc(junk) = 0 THEN [v |-> "none"] ELSE [v |-> "found", dropped |-> FirstOcc(junk) - 1]
  /\ \A t \in {T1, T2} : FindPattern(junk \o t) = (IF FirstOcc(junk) = 0 THEN Len(junk) + 1 ELSE FirstOcc(junk))
JunkSkipped == Occ(junk) = {} =>
  \A t \in {T1, T2} : \A s \in Sfx :
     LET d0 == ParseVerdict(t \o s, TRUE)  d == ParseVerdict(junk \o t \o s, TRUE) IN
     d0.v = "msg" /\ d.v = "msg" /\ d.m = d0.m /\ d.consumed = d0.consumed + Len(junk)
StreamRecovered == Occ(junk) = {} =>
  LET buf == junk \o T1 \o junk \o T2 \o junk
      run == RunSession(buf, 0, TRUE, None, "parse", 8) IN
  /\ Len(run) = 3 /\ run[1].v = "msg" /\ run[2].v = "msg" /\ run[3].v = "inc"
  /\ run[1].consumed = Len(junk) + Len(T1) /\ run[2].pos = Len(junk) + Len(T1) /\ run[2].consumed = Len(junk) + Len(T2)
  /\ ParseAt(buf, 0, TRUE, None).m = ParseVerdict(T1, TRUE).m /\ ParseAt(buf, run[2].pos, TRUE, None).m = ParseVerdict(T2, TRUE).m
Emitter == Emit =>
  /\ PrintT(<<"REPLAY", ToJson([mode |-> "search", ev |-> [op |-> "forward", buf |-> junk], expect |-> Forward(junk)])>>)
  /\ PrintT(<<"REPLAY", ToJson([mode |-> "search", ev |-> [op |-> "forward", buf |-> junk \o T2], expect |-> Forward(junk \o T2)])>>)
  /\ Occ(junk) = {} => PrintT(<<"REPLAY", ToJson([mode |-> "junk", junk |-> junk, msg |-> T2, sfx |-> <<7>>])>>)
  /\ PrintT(<<"REPLAY", ToJson([mode |-> "verdict", ev |-> [op |-> "parse", buf |-> junk \o T2 \o <<7>>, sh |-> TRUE, flt |-> <<>>], expect |-> ParseVerdict(junk \o T2 \o <<7>>, TRUE)])>>)
  /\ PrintT(<<"REPLAY", ToJson([mode |-> "verdict", ev |-> [op |-> "skip", buf |-> junk \o SH], expect |-> SkipStorage(junk \o SH)])>>)
  /\ PrintT(<<"REPLAY", ToJson([mode |-> "verdict", ev |-> [op |-> "consume", buf |-> junk \o T2], expect |-> ConsumeVerdict(junk \o T2)])>>)
=============================================================================
