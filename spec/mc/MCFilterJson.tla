---------------------------- MODULE MCFilterJson ----------------------------
(* FilterJson on a bounded universe of documents (beyond the listed          *)
(* properties, ./check extras).  A builder picks one value per field and a   *)
(* decoration; the invariants are the laws a user of the configuration file  *)
(* relies on, and every document is printed as a replay case with the        *)
(* verdict the specification gives (replayed into read_filter_options).      *)
(*   Values per field: absent | null | good value(s) | wrong kind | out of   *)
(*   range; decorations: none | unknown key | known key repeated | reversed  *)
(*   order | sequence form | sequence form one short / one long.             *)
EXTENDS FilterJson, DltFilter, TLC, Json
CONSTANTS Emit
E(k, t, n, s) == [k |-> k, t |-> t, n |-> n, s |-> s]
Absent == <<>>
LevelVals(k) == {Absent, <<E(k, "null", 0, <<>>)>>, <<E(k, "int", 0, <<>>)>>, <<E(k, "int", 3, <<>>)>>, <<E(k, "int", 255, <<>>)>>, <<E(k, "int", 256, <<>>)>>, <<E(k, "int", -1, <<>>)>>, <<E(k, "str", 0, <<>>)>>}
IdVals(k) == {Absent, <<E(k, "null", 0, <<>>)>>, <<E(k, "list", 0, <<>>)>>, <<E(k, "list", 0, <<"A", "B", "A">>)>>, <<E(k, "int", 1, <<>>)>>}
CountVals(k) == {Absent, <<E(k, "int", 0, <<>>)>>, <<E(k, "int", 2, <<>>)>>, <<E(k, "int", -1, <<>>)>>, <<E(k, "null", 0, <<>>)>>, <<E(k, "float", 2, <<>>)>>}
Decor == {"none", "unknown", "repeat", "reverse", "seq", "seq-short", "seq-long"}
VARIABLES stage, parts, decor
vars == <<stage, parts, decor>>
Init == stage = 0 /\ parts = <<>> /\ decor = "none"
Pick == /\ stage < 6
        /\ LET k == FieldOrder[stage + 1]
               vals == IF stage = 0 THEN LevelVals(k) ELSE IF stage \in 1..3 THEN IF stage = 1 THEN IdVals(k) ELSE {Absent, <<E(k, "list", 0, <<"E">>)>>, <<E(k, "bool", 0, <<>>)>>} ELSE CountVals(k)
           IN \E v \in vals : parts' = Append(parts, v)
        /\ stage' = stage + 1 /\ UNCHANGED decor
Decorate == stage = 6 /\ stage' = 7 /\ decor' \in Decor /\ UNCHANGED parts
Next == Pick \/ Decorate
Spec == Init /\ [][Next]_vars
Ready == stage = 7
Flat == parts[1] \o parts[2] \o parts[3] \o parts[4] \o parts[5] \o parts[6]
Plain == [form |-> "map", ent |-> Flat]
\* the sequence form has no "absent": a missing optional value is written null, a missing count stays missing (one short)
Positional == [i \in 1..6 |-> IF parts[i] = Absent THEN E(FieldOrder[i], "null", 0, <<>>) ELSE parts[i][1]]
Doc == CASE decor = "none"      -> Plain
         [] decor = "unknown"   -> [Plain EXCEPT !.ent = <<E("level", "int", 900, <<>>)>> \o Flat \o <<E("app_ids ", "str", 0, <<>>)>>]
         [] decor = "repeat"    -> [Plain EXCEPT !.ent = Flat \o (IF Flat = <<>> THEN <<>> ELSE <<Flat[1]>>)]
         [] decor = "reverse"   -> [Plain EXCEPT !.ent = Reverse(Flat)]
         [] decor = "seq"       -> [form |-> "seq", ent |-> Positional]
         [] decor = "seq-short" -> [form |-> "seq", ent |-> SubSeq(Positional, 1, 5)]
         [] OTHER               -> [form |-> "seq", ent |-> Positional \o <<E("x", "int", 1, <<>>)>>]
\* ---- the laws
UnknownKeysIgnored == (Ready /\ decor = "unknown") => Load(Doc) = Load(Plain)
OrderIrrelevant    == (Ready /\ decor = "reverse") => Load(Doc) = Load(Plain)
RepeatRefused      == (Ready /\ decor = "repeat" /\ Flat # <<>>) => Load(Doc) = None
SeqNeedsSix        == (Ready /\ decor \in {"seq-short", "seq-long"}) => Load(Doc) = None
\* both forms mean the same when every count is there (an absent optional field and a null are the same thing)
FormsAgree         == (Ready /\ decor = "seq" /\ parts[5] # Absent /\ parts[6] # Absent) => Load(Doc) = Load(Plain)
CountsRequired     == (Ready /\ decor = "none" /\ (parts[5] = Absent \/ parts[6] = Absent)) => Load(Doc) = None
WrittenLoads       == (Ready /\ IsSome(Load(Doc))) => Load(Written(Load(Doc)[1])) = Load(Doc)
\* what the filter decides depends on the processed configuration only (link to DltFilter)
ExtA == Some([verb |-> TRUE, noar |-> 1, mt |-> <<0, 4>>, ap |-> "A", ct |-> "E"])
ExtC == Some([verb |-> TRUE, noar |-> 1, mt |-> <<0, 1>>, ap |-> "C", ct |-> "E"])
Hdrs == {[ecu |-> None], [ecu |-> Some("E")], [ecu |-> Some("Z")]}
Canon(c) == LET Dedup(o) == IF IsSome(o) THEN Some(SetToSeq(SetOfIds(o[1]))) ELSE None IN
           [c EXCEPT !.min = Processed(c).min, !.app = Dedup(c.app), !.ecu = Dedup(c.ecu), !.ctx = Dedup(c.ctx)]
DecisionByProcessed == (Ready /\ IsSome(Load(Doc))) =>
   LET c == Load(Doc)[1] IN \A h \in Hdrs, x \in {None, ExtA, ExtC} : Dropped(c, h, x) = Dropped(Canon(c), h, x) /\ DroppedOp(c, h, x) = Dropped(c, h, x)
Emitter == (Emit /\ Ready) => PrintT(<<"REPLAY", ToJson([mode |-> "filterjson", doc |-> Doc, expect |-> Load(Doc)])>>)
=============================================================================
