SPECIFICATION Spec
CONSTANTS MaxLen = 4  Emit = TRUE
INVARIANTS AutomatonIsDeclarative FieldRule IdsObeyRule Emitter
CHECK_DEADLOCK FALSE
