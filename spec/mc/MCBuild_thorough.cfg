SPECIFICATION Spec
CONSTANTS Rich = FALSE  Emit = TRUE
INVARIANTS LengthsAgree StorageOnlyPrepends ParsesBack WellFormedIff Emitter ArgLaws ArgEmitter
CHECK_DEADLOCK FALSE
