SPECIFICATION Spec
CONSTANTS MaxTypes = 4  Emit = TRUE
INVARIANTS ExactDecodes TrailingIgnored ShortRefused BadUtf8Refused FixedPointOutside Emitter
CHECK_DEADLOCK FALSE
