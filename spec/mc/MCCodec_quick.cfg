SPECIFICATION Spec
CONSTANTS MaxArgs = 2  Rich = TRUE  AllFlags = FALSE  Emit = TRUE  SingleAllFlags = TRUE
INVARIANTS GenWellFormed RoundTrip PrefixIncomplete ConsumeWhole LenOrderFree Stable DeclaredOk Emitter
CHECK_DEADLOCK FALSE
