----------------------------- MODULE MCNumeric -----------------------------
(* C17 / C18 on the model alone.                                            *)
(*  - the numeral arithmetic (Numerals) agrees with TLC integers wherever    *)
(*    both exist;                                                            *)
(*  - FromMs / FromUs denote the same instant: secs*10^6 + us = input in us  *)
(*    (positional identity, checked with integers for all numerals whose     *)
(*    value fits TLC);                                                       *)
(*  - the case analysis of ToRealValue over every shape x product class x    *)
(*    offset sign.                                                           *)
(* Emits replay cases: timestamps (limbs -> expected secs / us) and          *)
(* arguments with quantization 1.0 (product = value) -> expected real value. *)
EXTENDS DltBuild, TLC, Json
CONSTANT Emit
L == {0, 1, 2, 9, 10, 99, 100, 147, 483, 500, 647, 999}          \* limb values
VARIABLES part, a, b
vars == <<part, a, b>>
Init == part = "start" /\ a = <<>> /\ b = <<>>
Grow == part \in {"start", "a"} /\ Len(a) < 2 /\ part' = "a" /\ \E x \in L : a' = Append(a, x) /\ b' = b
GrowB == part \in {"a", "b"} /\ Len(b) < 2 /\ part' = "b" /\ \E x \in L : b' = Append(b, x) /\ a' = a
Next == Grow \/ GrowB
Spec == Init /\ [][Next]_vars
NA == Num!ToNat(a)
NB == Num!ToNat(b)
Arithmetic == part = "b" =>
  /\ Num!ToNat(Num!Add(a, b)) = NA + NB
  /\ (Num!Less(a, b) <=> NA < NB) /\ (Num!Eq(a, b) <=> NA = NB)
  /\ NB <= NA => Num!ToNat(Num!Sub(a, b)) = NA - NB
  /\ Num!OfNat(NA) = Num!Strip(a)
\* three-limb inputs: a is the upper part (<= 2 limbs), b the lower limbs
SameInstantMs == (part = "b" /\ Len(b) = 1 /\ NA <= 2146) =>          \* ms = a*1000 + b  <= 2 147 999 (so that ms*1000 fits TLC)
  LET t == FromMs(a \o b) IN Num!ToNat(t.secs) * 1000000 + Num!ToNat(t.us) = (NA * 1000 + NB) * 1000 /\ Num!ToNat(t.us) < 1000000
SameInstantUs == (part = "b" /\ Len(b) = 2 /\ NA <= 2146) =>          \* us = a*10^6 + b
  LET t == FromUs(a \o b) IN Num!ToNat(t.secs) * 1000000 + Num!ToNat(t.us) = NA * 1000000 + NB /\ Num!ToNat(t.us) < 1000000
\* ---- C18 case analysis
Kinds == {"bool", "sint", "uint", "sfp", "ufp", "float", "str", "raw"}
Shapes == [kind : Kinds, hasfp : BOOLEAN, vtag : {"i", "u", "f", "bool", "str", "raw"}, vlen : {0, 1, 2, 4, 8, 16}]
CaseAnalysis == part = "start" =>
  \A s \in Shapes : \A cls \in {"num", "neg", "nan", "big"} : \A neg \in BOOLEAN :
     LET d == ToRealValue(s, [cls |-> cls, limbs |-> <<5, 0>>], [neg |-> neg, limbs |-> <<200>>]) IN
     /\ d.v = "none" <=> ~(s.kind \in {"sfp", "ufp"} /\ s.hasfp /\ s.vtag \in {"i", "u"})
     /\ (d.v # "none" /\ cls = "num" /\ s.vlen <= 8) => (d.v = "some" /\ d.limbs = (IF neg THEN <<4, 800>> ELSE <<5, 200>>))
     /\ (d.v # "none" /\ (cls # "num" \/ s.vlen > 8)) => d.v = "some-any"
Boundary == part = "start" =>
  /\ ToRealValue([kind |-> "ufp", hasfp |-> TRUE, vtag |-> "u", vlen |-> 8], [cls |-> "num", limbs |-> <<9, 223, 372, 36, 854, 775, 807>>], [neg |-> FALSE, limbs |-> <<0>>]).v = "some"
  /\ ToRealValue([kind |-> "ufp", hasfp |-> TRUE, vtag |-> "u", vlen |-> 8], [cls |-> "num", limbs |-> <<9, 223, 372, 36, 854, 775, 807>>], [neg |-> FALSE, limbs |-> <<1>>]).v = "some-any"
  /\ ToRealValue([kind |-> "sfp", hasfp |-> TRUE, vtag |-> "i", vlen |-> 4], [cls |-> "num", limbs |-> <<199>>], [neg |-> TRUE, limbs |-> <<200>>]).v = "some-any"
  /\ ToRealValue([kind |-> "sfp", hasfp |-> TRUE, vtag |-> "i", vlen |-> 4], [cls |-> "num", limbs |-> <<1, 0>>], [neg |-> TRUE, limbs |-> <<200>>]) = [v |-> "some", limbs |-> <<800>>]
\* ---- emission
One == <<63, 128, 0, 0>>        \* 1.0f32
BE(n, w) == [i \in 1..w |-> IF w - i >= 3 THEN 0 ELSE (n \div (256 ^ (w - i))) % 256]       \* n < 2^24 as a w-byte big-endian image
ArgFor(kind, w, vtag, vw, n, off, hasfp) ==
  [kind |-> kind, w |-> w, cod |-> 0, vari |-> FALSE, trai |-> FALSE, name |-> None, unit |-> None,
   fp |-> IF hasfp THEN Some([q |-> One, off |-> off]) ELSE None, val |-> <<vtag, BE(n, vw)>>]
EmitTs == (Emit /\ part = "b") =>
  /\ PrintT(<<"REPLAY", ToJson([mode |-> "ts", ev |-> [op |-> "from_ms", limbs |-> <<0>> \o a \o b], expect |-> FromMs(a \o b)])>>)
  /\ Len(b) = 2 => PrintT(<<"REPLAY", ToJson([mode |-> "ts", ev |-> [op |-> "from_us", limbs |-> <<0>> \o a \o b], expect |-> FromUs(a \o b)])>>)
EmitReal == (Emit /\ part = "start") =>
  \A kind \in {"sfp", "ufp", "sint", "uint"} : \A w \in {32, 64} : \A vtag \in {"i", "u"} : \A vw \in {1, 2, 4, 8, 16} : \A n \in {0, 1, 1000, 70000} : \A o \in {0, 200, 56} : \A hasfp \in BOOLEAN :
     ((vw = 1 => n < 128) /\ (vw = 2 => n < 32768)) =>
     LET off == IF o = 56 THEN [i \in 1..(w \div 8) |-> IF i = w \div 8 THEN 56 ELSE 255] ELSE BE(o, w \div 8)        \* 56 with 0xFF.. prefix = -200
         neg == o = 56
         d == ToRealValue([kind |-> kind, hasfp |-> hasfp, vtag |-> vtag, vlen |-> vw], [cls |-> "num", limbs |-> Num!OfNat(n)], [neg |-> neg, limbs |-> IF neg THEN <<200>> ELSE Num!OfNat(o)]) IN
     PrintT(<<"REPLAY", ToJson([mode |-> "real", a |-> ArgFor(kind, w, vtag, vw, n, off, hasfp), expect |-> d])>>)
=============================================================================
