SPECIFICATION Spec
CONSTANTS MaxArgs = 2  Rich = TRUE  AllFlags = TRUE  Emit = TRUE  SingleAllFlags = TRUE
INVARIANTS GenWellFormed RoundTrip PrefixIncomplete ConsumeWhole LenOrderFree Stable DeclaredOk Emitter
CHECK_DEADLOCK FALSE
