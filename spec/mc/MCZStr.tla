------------------------------- MODULE MCZStr -------------------------------
(* C19: fixed-size NUL-terminated fields.  All byte strings up to MaxLen     *)
(* over an alphabet holding NUL, ASCII, complete and incomplete 2/3/4-byte   *)
(* UTF-8 sequences and an invalid byte, against all sizes 0..MaxLen+1.       *)
(* The automaton Utf8!ValidUpTo is cross-checked against a declarative       *)
(* definition of well-formedness (Unicode table 3-7 as a set of sequences).  *)
EXTENDS DltCodec, TLC, Json
CONSTANTS MaxLen, Emit
Alphabet == {0, 32, 65, 195, 169, 226, 130, 172, 240, 159, 255}
VARIABLE s
Init == s = <<>>
Next == Len(s) < MaxLen /\ \E b \in Alphabet : s' = Append(s, b)
Spec == Init /\ [][Next]_s
\* ---- declarative UTF-8: a string is valid iff it splits into well-formed sequences (table 3-7)
Cont(b) == b \in 128..191
WF1(q) == Len(q) = 1 /\ q[1] <= 127
WF2(q) == Len(q) = 2 /\ q[1] \in 194..223 /\ Cont(q[2])
WF3(q) == Len(q) = 3 /\ \/ q[1] = 224 /\ q[2] \in 160..191 /\ Cont(q[3])
                        \/ q[1] \in (225..236) \cup {238, 239} /\ Cont(q[2]) /\ Cont(q[3])
                        \/ q[1] = 237 /\ q[2] \in 128..159 /\ Cont(q[3])
WF4(q) == Len(q) = 4 /\ \/ q[1] = 240 /\ q[2] \in 144..191 /\ Cont(q[3]) /\ Cont(q[4])
                        \/ q[1] \in 241..243 /\ Cont(q[2]) /\ Cont(q[3]) /\ Cont(q[4])
                        \/ q[1] = 244 /\ q[2] \in 128..143 /\ Cont(q[3]) /\ Cont(q[4])
RECURSIVE ValidDecl(_)
ValidDecl(q) == q = <<>> \/ \E n \in 1..4 : n <= Len(q) /\ LET c == SubSeq(q, 1, n) IN (WF1(c) \/ WF2(c) \/ WF3(c) \/ WF4(c)) /\ ValidDecl(SubSeq(q, n + 1, Len(q)))
LongestValid(q) == CHOOSE c \in 0..Len(q) : ValidDecl(SubSeq(q, 1, c)) /\ \A c2 \in (c + 1)..Len(q) : ~ValidDecl(SubSeq(q, 1, c2))
AutomatonIsDeclarative == ValidUpTo(s) = LongestValid(s)
\* ---- the statement of C19, declaratively
BeforeNul(q) == IF \E i \in 1..Len(q) : q[i] = 0 THEN SubSeq(q, 1, (CHOOSE i \in 1..Len(q) : q[i] = 0 /\ \A j \in 1..(i - 1) : q[j] # 0) - 1) ELSE q
FieldRule == \A size \in 0..(MaxLen + 1) :
   LET d == ZStr(s, size) IN
   IF Len(s) >= size
   THEN LET raw == BeforeNul(SubSeq(s, 1, size)) IN d.v = "ok" /\ d.consumed = size /\ d.val = SubSeq(raw, 1, LongestValid(raw))
   ELSE d.v = "inc" /\ d.miss = size - Len(s)
\* the ids of a message obey the same rule
IdMsg(a, b, c) == <<37, 1, 0, 22>> \o a \o <<64, 0>> \o b \o c \o <<1, 2, 3, 4>>      \* canonical non-verbose log message (NOAR 0)
Pad4(q) == SubSeq(q \o <<88, 89, 90, 87>>, 1, 4)
IdsObeyRule == Len(s) <= 4 =>
   LET id == Pad4(s)  d == ParseVerdict(IdMsg(id, id, id), FALSE)  want == ZStr(id, 4).val IN
   d.v = "msg" /\ d.m.h.ecu = Some(want) /\ d.m.x[1].ap = want /\ d.m.x[1].ct = want
Emitter == Emit =>
  /\ \A size \in {0, 1, Len(s) - 1, Len(s), Len(s) + 1} \cap 0..(MaxLen + 1) :
        PrintT(<<"REPLAY", ToJson([ev |-> [op |-> "zstr", buf |-> s, size |-> size], expect |-> ZStr(s, size)])>>)
  /\ Len(s) <= 4 => PrintT(<<"REPLAY", ToJson([mode |-> "ids", ev |-> [op |-> "parse", buf |-> IdMsg(Pad4(s), Pad4(s), Pad4(s)), sh |-> FALSE, flt |-> <<>>],
                                               expect |-> ParseVerdict(IdMsg(Pad4(s), Pad4(s), Pad4(s)), FALSE)])>>)
=============================================================================
