SPECIFICATION Spec
CONSTANTS EofRefuses = TRUE  Tier = "quick"  Mode = "intact"  Emit = TRUE
INVARIANTS LoadIsIntended LookupIsIntended IntendedAccepted EmitDoc
CHECK_DEADLOCK FALSE
