SPECIFICATION Spec
CONSTANTS EofRefuses = TRUE  Tier = "quick"  Mode = "intact"  Emit = TRUE
INVARIANTS LoadIsIntended LookupIsIntended EmitDoc
CHECK_DEADLOCK FALSE
