SPECIFICATION SpecM
CONSTANTS MaxArgs = 1  Rich = FALSE  AllFlags = FALSE  Emit = TRUE  SingleAllFlags = FALSE  RichFlips = FALSE
INVARIANTS Total Consumption StableThm ConsumeAgrees EmitMut Dialect
CHECK_DEADLOCK FALSE
