SPECIFICATION Spec
CONSTANTS Emit = TRUE
INVARIANTS UnknownKeysIgnored OrderIrrelevant RepeatRefused SeqNeedsSix FormsAgree CountsRequired WrittenLoads DecisionByProcessed Emitter
CHECK_DEADLOCK FALSE
