------------------------------ MODULE MCBuild ------------------------------
(* C15: the message builder as a machine  New -> AddStorage -> AsBytes ->   *)
(* Parse  over all small configurations (every payload kind, optional       *)
(* fields, extended header present / absent, matching and mismatching       *)
(* message types), and the argument length / validity laws.                  *)
EXTENDS DltBuild, TLC, Json
CONSTANTS Rich, Emit
INSTANCE MCCodecArgs
Bools == BOOLEAN
PayloadChoices == {<<"v", <<>>>>, <<"nv", <<1, 2, 3, 4>>, <<5, 6>>>>, <<"ctl", 2, <<8>>>>, <<"ctl", 17, <<>>>>, <<"nw", <<>>>>, <<"nw", <<<<1, 2>>, <<>>, <<3>>>>>>}
                  \cup {<<"v", <<a>>>> : a \in ArgsBasic} \cup {<<"v", <<a, b>>>> : a \in PairLeft, b \in PairRight}
MtChoices == {<<0, 4>>, <<0, 9>>, <<1, 2>>, <<2, 6>>, <<2, 0>>, <<3, 1>>, <<3, 9>>, <<5, 15>>}
VARIABLES stage, conf
vars == <<stage, conf>>
Init == stage = "start" /\ conf = <<>>
Pick1 == /\ stage = "start" /\ stage' = "half"
         /\ \E be \in Bools, we \in Bools, ws \in Bools, wt \in Bools, x \in {None} \cup {Some([mt |-> mt, ap |-> <<65, 80>>, ct |-> <<>>]) : mt \in MtChoices} :
             conf' = [ver |-> 1, cnt |-> 200, be |-> be, ecu |-> IF we THEN Some(<<69, 49>>) ELSE None, sid |-> IF ws THEN Some(<<1, 2, 3, 4>>) ELSE None,
                      tms |-> IF wt THEN Some(<<250, 251, 252, 253>>) ELSE None, p |-> <<"v", <<>>>>, x |-> x]
Pick2 == stage = "half" /\ stage' = "conf" /\ \E p \in PayloadChoices : conf' = [conf EXCEPT !.p = p]
Next == Pick1 \/ Pick2
Spec == Init /\ [][Next]_vars
Ready == stage = "conf"
M == NewMessage(conf, None)
Secs == <<16, 32, 48, 64>>
Us == <<0, 15, 66, 63>>
M2 == AddStorageHeader(M, Secs, Us)
LengthsAgree == Ready => /\ ByteLen(M) = Len(EncMessage(M))
                         /\ M.h.plen = Len(EncMessage(M)) - HdrsLen(EncMessage(M)[1])
StorageOnlyPrepends == Ready => /\ EncMessage(M2) = EncStorage(M2.sh[1]) \o EncMessage(M) /\ Len(EncStorage(M2.sh[1])) = 16
                                /\ M2.sh[1].ecu = (IF IsSome(conf.ecu) THEN conf.ecu[1] ELSE <<69, 67, 85>>)
                                /\ [M2 EXCEPT !.sh = None] = M
ParsesBack == (Ready /\ WellFormed(M)) => LET d == ParseVerdict(EncMessage(M2), TRUE) IN d.v = "msg" /\ d.m = M2 /\ d.consumed = Len(EncMessage(M2))
\* what makes a built message well-formed: the payload kind must match extended header and message type
WellFormedIff == Ready => (WellFormed(M) <=>
   CASE conf.p[1] = "v" -> IsSome(conf.x) /\ conf.x[1].mt[1] # MSTP_NW
     [] conf.p[1] = "nw" -> IsSome(conf.x) /\ conf.x[1].mt[1] = MSTP_NW
     [] conf.p[1] = "ctl" -> IsSome(conf.x) /\ conf.x[1].mt[1] = MSTP_CTRL
     [] conf.p[1] = "nv" -> (IsSome(conf.x) => conf.x[1].mt[1] # MSTP_CTRL))
Emitter == (Emit /\ Ready) => PrintT(<<"REPLAY", ToJson([conf |-> conf, ts |-> [secs |-> Secs, us |-> Us],
                                        expect |-> [m |-> M, m2 |-> M2, storage |-> EncStorage(M2.sh[1]), wf |-> WellFormed(M)]])>>)
\* ---- arguments: every variant (rich) and kind / value mismatches
Mismatch(a) == {[a EXCEPT !.kind = "bool", !.w = 0], [a EXCEPT !.kind = "float", !.w = 32], [a EXCEPT !.kind = "float", !.w = 64]}
ArgLaws == stage = "start" =>
  /\ \A a \in ArgsRich : ArgWellFormed(a) /\ ArgValid(a) /\ Len(EncArg(a, TRUE)) = Len(EncArg(a, FALSE)) /\ ArgLen(a) = Len(EncArg(a, FALSE))
  /\ \A a \in ArgsBasic : \A b \in Mismatch(a) : (b.kind # a.kind \/ b.w # a.w) => (~ArgValid(b) <=> (b.val[1] # (IF b.kind = "bool" THEN "bool" ELSE "f") \/ (b.kind = "float" /\ Len(b.val[2]) # b.w \div 8)))
ArgEmitter == (Emit /\ stage = "start") =>
  /\ \A a \in ArgsRich : PrintT(<<"REPLAY", ToJson([mode |-> "arg", a |-> a, expect |-> [invalid |-> FALSE, wf |-> TRUE]])>>)
  /\ \A a \in ArgsBasic : \A b \in Mismatch(a) : PrintT(<<"REPLAY", ToJson([mode |-> "arg", a |-> b, expect |-> [invalid |-> ~ArgValid(b), wf |-> ArgWellFormed(b)]])>>)
=============================================================================
