---------------------------- MODULE MCCodecArgs ----------------------------
(* The argument universes shared by the bounded instances.                  *)
EXTENDS Naturals, Sequences, Bytes
Iota(n) == [i \in 1..n |-> i]                 \* pairwise distinct bytes: byte-order slips are visible
Widths == {8, 16, 32, 64, 128}
TypeVariants ==
     {[kind |-> "bool", w |-> 0]} \cup {[kind |-> "sint", w |-> w] : w \in Widths} \cup {[kind |-> "uint", w |-> w] : w \in Widths}
\cup {[kind |-> k, w |-> w] : k \in {"sfp", "ufp", "float"}, w \in {32, 64}} \cup {[kind |-> "str", w |-> 0], [kind |-> "raw", w |-> 0]}
MkArg(t, vari, trai, cod, nm) ==
  LET nameOnly == t.kind \in {"bool", "str", "raw"} IN
  [kind |-> t.kind, w |-> t.w, cod |-> cod, vari |-> vari, trai |-> trai,
   name |-> IF vari THEN Some(nm) ELSE None,
   unit |-> IF vari /\ ~nameOnly THEN Some(IF nm = <<>> THEN <<>> ELSE <<117>>) ELSE None,
   fp |-> IF t.kind \in {"sfp", "ufp"} THEN Some([q |-> <<63, 192, 0, 1>>, off |-> [i \in 1..(t.w \div 8) |-> 200 + i]]) ELSE None,
   val |-> CASE t.kind = "bool" -> <<"bool", <<1>>>>
             [] t.kind \in {"sint", "sfp"} -> <<"i", Iota(t.w \div 8)>>
             [] t.kind \in {"uint", "ufp"} -> <<"u", Iota(t.w \div 8)>>
             [] t.kind = "float" -> <<"f", Iota(t.w \div 8)>>
             [] t.kind = "str" -> <<"str", IF nm = <<>> THEN <<>> ELSE <<104, 195, 169>> >>
             [] t.kind = "raw" -> <<"raw", IF nm = <<>> THEN <<>> ELSE <<9, 0, 7>> >>]
ArgsBasic == {MkArg(t, v, FALSE, IF t.kind = "str" THEN 1 ELSE 0, <<110, 109>>) : t \in TypeVariants, v \in BOOLEAN}
ArgsRich == {MkArg(t, v, tr, c, nm) : t \in TypeVariants, v \in BOOLEAN, tr \in BOOLEAN, c \in {0, 1, 5}, nm \in {<<110, 109>>, <<>>}}
PairLeft == {a \in ArgsBasic : a.kind \in {"bool", "str", "ufp"} /\ (a.kind # "ufp" \/ a.w = 64)}
PairRight == {a \in ArgsBasic : a.kind \in {"raw", "sint", "float"} /\ a.w \in {0, 16, 32}}
=============================================================================
