------------------------------ MODULE MCDecode ------------------------------
(* Bounded instance of the composition NvDecode (growth beyond the listed    *)
(* properties): 540 structured models + the 34 vocabulary models, one layout *)
(* (layouts are C11's business), and per model 72 non-verbose messages:      *)
(* message id 1..3 x {no extended header, (APP, CTX), (CTX, APP)} x both     *)
(* byte orders x payload {exactly the frame's fields, one byte short, one    *)
(* byte long, empty}.  The theorems say what the composition means; every    *)
(* state is also emitted as a replay case for the real code.                 *)
EXTENDS NvDecode
CONSTANTS Emit
DecModels == ModelsVocab \cup
  { m \in ModelsFull : /\ m.pdus[1].desc = None /\ Len(m.pdus) = 2
                       /\ (Len(m.frames) = 1 \/ (Len(m.frames) = 2 /\ m.frames[2].id = "ID_2"))
                       /\ Len(m.signals) = 3 /\ m.signals[2][1] = "SIG_B" /\ m.codings[1][2] = "A_UINT16" }
TheLayout == [perm |-> 1, inst |-> 1, sect |-> 1, split |-> 1, ws |-> FALSE]
IdBytes(s) == CASE s = "APP" -> <<65, 80, 80>> [] s = "CTX" -> <<67, 84, 88>>
\* one field per signal type, written independently of ConstructArgs
Field(t, be, i) ==
  LET n == t.w \div 8  img == [j \in 1..n |-> 16 * i + j] IN
  CASE t.kind = "bool" -> <<i>>
    [] t.kind \in {"sint", "uint", "float"} -> C!Norm(img, be)
    [] t.kind = "str" -> C!U16Bytes(3, be) \o <<97, 98, 0>>
    [] t.kind = "raw" -> C!U16Bytes(2, be) \o <<255, i>>
RECURSIVE Fit(_, _, _)
Fit(types, be, i) == IF i > Len(types) THEN <<>> ELSE Field(types[i], be, i) \o Fit(types, be, i + 1)

VARIABLES stage, model, meta, msg
vars == <<stage, model, meta, msg>>
NoMsg == [idn |-> 0, ext |-> None, be |-> FALSE, variant |-> "-", types |-> <<>>, buf |-> <<>>]
Init == stage = "start" /\ model = <<>> /\ meta = None /\ msg = NoMsg
PickModel == stage = "start" /\ \E m \in DecModels : model' = m /\ meta' = Outcome(Render(m, TheLayout)) /\ stage' = "m" /\ msg' = msg
PickMsg == stage = "m" /\ \E idn \in 1..3, ext \in {None, Some([ap |-> "APP", ct |-> "CTX"]), Some([ap |-> "CTX", ct |-> "APP"])}, be \in BOOLEAN,
                             variant \in {"exact", "short", "long", "empty"} :
   LET fr == IF meta = None THEN None ELSE Lookup(meta[1], "ID_" \o ToString(idn), ext)
       types == IF fr = None THEN <<>> ELSE Flatten(fr[1].pdus)
       exact == Fit(types, be, 1)
       data == CASE variant = "exact" -> exact [] variant = "short" -> (IF exact = <<>> THEN <<>> ELSE SubSeq(exact, 1, Len(exact) - 1))
                 [] variant = "long" -> exact \o <<9>> [] variant = "empty" -> <<>>
       m == [sh |-> None,
             h |-> [ver |-> 1, be |-> be, ueh |-> ext # None, mcnt |-> 7, ecu |-> None, sid |-> None, tms |-> None, plen |-> 4 + Len(data)],
             x |-> IF ext = None THEN None ELSE Some([verb |-> FALSE, noar |-> 0, mt |-> <<0, 4>>, ap |-> IdBytes(ext[1].ap), ct |-> IdBytes(ext[1].ct)]),
             p |-> <<"nv", <<0, 0, 0, idn>>, data>>] IN
   /\ msg' = [idn |-> idn, ext |-> ext, be |-> be, variant |-> variant, types |-> types, buf |-> C!EncMessage(m)]
   /\ stage' = "msg" /\ UNCHANGED <<model, meta>>
Next == PickModel \/ PickMsg
Spec == Init /\ [][Next]_vars

Res == Decode(meta, msg.buf, FALSE)
Found == meta # None /\ Lookup(meta[1], "ID_" \o ToString(msg.idn), msg.ext) # None
\* ---- what the composition means
NoModel == (stage = "msg" /\ meta = None) => Res.v = "nomodel"
Miss == (stage = "msg" /\ meta # None /\ ~Found) => Res.v = "nometa"
Exact == (stage = "msg" /\ Found /\ msg.variant \in {"exact", "long"}) => (Res.v = "ok" /\ Len(Res.args) = Len(msg.types))     \* trailing bytes are ignored
Short == (stage = "msg" /\ Found /\ msg.types # <<>> /\ msg.variant \in {"short", "empty"}) => Res.v = "err"
NoFields == (stage = "msg" /\ Found /\ msg.types = <<>>) => (Res.v = "ok" /\ Res.args = <<>>)
\* ---- replay cases
Emitter == (Emit /\ stage = "msg") => PrintT(<<"REPLAY", ToJson([mode |-> "decode", files |-> Render(model, TheLayout), buf |-> msg.buf, expect |-> Res])>>)
=============================================================================
