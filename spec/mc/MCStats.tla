------------------------------ MODULE MCStats ------------------------------
(* C10 on the model: streams of up to MaxMsgs messages over 12 representative *)
(* headers (every bucket, the NONE ECU, id sharing, verbose / non-verbose),  *)
(* every split into up to 3 parts at message boundaries, every order and     *)
(* grouping of merging the parts.                                            *)
EXTENDS Stats, TLC, Json
CONSTANTS MaxMsgs, Emit
X(mt, ap, ct, verb) == Some([mt |-> mt, ap |-> ap, ct |-> ct, verb |-> verb])
IA == <<65>>  IB == <<66>>  IC == <<67>>  ID == <<68>>  IE == <<69>>
Headers == <<
  [ecu |-> Some(IE), ext |-> X(<<0, 1>>, IA, IC, TRUE)],        \* fatal
  [ecu |-> Some(IE), ext |-> X(<<0, 4>>, IA, ID, TRUE)],        \* info, same app, other ctx
  [ecu |-> None,     ext |-> X(<<0, 6>>, IB, IC, FALSE)],       \* verbose level, NONE ecu, non-verbose payload
  [ecu |-> Some(IE), ext |-> X(<<0, 0>>, IB, ID, TRUE)],        \* invalid level 0
  [ecu |-> Some(<<70>>), ext |-> X(<<0, 9>>, IA, IC, TRUE)],    \* invalid level 9, other ecu
  [ecu |-> Some(IE), ext |-> X(<<3, 1>>, IA, IC, FALSE)],       \* control request: non-log
  [ecu |-> Some(IE), ext |-> X(<<2, 3>>, IB, IC, TRUE)],        \* network trace: non-log
  [ecu |-> Some(IE), ext |-> X(<<0, 2>>, IB, ID, TRUE)],        \* error
  [ecu |-> None,     ext |-> X(<<0, 3>>, IA, IC, TRUE)],        \* warn
  [ecu |-> Some(IE), ext |-> X(<<0, 5>>, IA, IC, FALSE)],       \* debug
  [ecu |-> Some(<<69, 32>>), ext |-> X(<<0, 4>>, <<65, 32>>, IC, TRUE)],   \* ids "E " and "A ": differ from "E" / "A" only by a trailing blank - distinct ids
  [ecu |-> None,     ext |-> None] >>                           \* no extended header
VARIABLES stage, hs, bag
vars == <<stage, hs, bag>>
Init == stage = "build" /\ hs = <<>> /\ bag = <<>>
Add == stage = "build" /\ Len(hs) < MaxMsgs /\ \E i \in 1..Len(Headers) : hs' = Append(hs, Headers[i]) /\ UNCHANGED <<stage, bag>>
\* split at message boundaries into 1..3 parts (c1 <= c2), each summarised by the collector machine
Split == stage = "build" /\ \E c1 \in 0..Len(hs) : \E c2 \in c1..Len(hs) :
           /\ bag' = SelectSeq(<<Summary(SubSeq(hs, 1, c1)), Summary(SubSeq(hs, c1 + 1, c2)), Summary(SubSeq(hs, c2 + 1, Len(hs)))>>, LAMBDA x : TRUE)
           /\ stage' = "merge" /\ hs' = hs
\* merge any two of the remaining summaries, in either direction
MergeTwo == stage = "merge" /\ Len(bag) > 1 /\ \E i \in 1..Len(bag) : \E j \in 1..Len(bag) : i # j /\
            LET m == Merge(bag[i], bag[j])
                rest == [k \in 1..(Len(bag) - 2) |-> LET idx == CHOOSE f \in [1..(Len(bag) - 2) -> (1..Len(bag)) \ {i, j}] :
                                                                  \A a, b \in 1..(Len(bag) - 2) : a < b => f[a] < f[b] IN bag[idx[k]]]
            IN bag' = <<m>> \o rest /\ UNCHANGED <<stage, hs>>
Next == Add \/ Split \/ MergeTwo
Spec == Init /\ [][Next]_vars
EqualsTally == Summary(hs) = Tally(hs)
Conservation == Total(Summary(hs).ecu) = Len(hs)
MergeIsSum == (stage = "merge" /\ Len(bag) = 1) => bag[1] = Tally(hs)
PartsConserve == stage = "merge" => LET RECURSIVE T(_) T(b) == IF b = <<>> THEN 0 ELSE Total(Head(b).ecu) + T(Tail(b)) IN T(bag) = Len(hs)
\* ---- replay cases: the stream of headers, a split, and the summaries the collector machine gives for the whole and the parts
TableSet(t) == {<<id, t[id]>> : id \in DOMAIN t}
SumJ(c) == [app |-> TableSet(c.app), ctx |-> TableSet(c.ctx), ecu |-> TableSet(c.ecu), nonverbose |-> c.nonverbose]
Emitter == (Emit /\ stage = "build" /\ Len(hs) >= 1) =>
  \A c1 \in 0..Len(hs) : \A c2 \in c1..Len(hs) :
     PrintT(<<"REPLAY", ToJson([hs |-> hs, c1 |-> c1, c2 |-> c2,
                                expect |-> [whole |-> SumJ(Tally(hs)),
                                            parts |-> <<SumJ(Summary(SubSeq(hs, 1, c1))), SumJ(Summary(SubSeq(hs, c1 + 1, c2))), SumJ(Summary(SubSeq(hs, c2 + 1, Len(hs))))>>]])>>)
=============================================================================
