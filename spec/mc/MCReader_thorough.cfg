SPECIFICATION Spec
CONSTANTS Async = FALSE  MaxChunk = 40  Rich = TRUE
INVARIANTS Safe AtEnd EndIsDetermined
PROPERTY Terminates
CHECK_DEADLOCK FALSE
