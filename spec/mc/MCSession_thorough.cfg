SPECIFICATION Spec
CONSTANTS MaxPieces = 3  Emit = TRUE
INVARIANTS InBuffer Aligned FilterIndependentCursor ParseConsumeAgree Emitter
PROPERTY Progress
CHECK_DEADLOCK FALSE
