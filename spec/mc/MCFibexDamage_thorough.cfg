SPECIFICATION Spec
CONSTANTS EofRefuses = TRUE  Tier = "damage-thorough"  Mode = "damage"  Emit = TRUE
INVARIANTS RunAgrees EmitDamaged
PROPERTY Terminated
CHECK_DEADLOCK FALSE
