------------------------------ MODULE MCCodec ------------------------------
(* Bounded instance of the reference codec: a message-builder machine whose   *)
(* every state is one well-formed message; TLC checks the codec theorems in   *)
(* every state and (Emit = TRUE) prints each message with its reference       *)
(* serialisation as a replay case for direction A.                            *)
(*   C01 RoundTrip        decode(encode m ++ suffix) = (m, Len(encode m))     *)
(*   C05 PrefixIncomplete every proper prefix is `inc`; consume: none / inc   *)
(*   C04 ConsumeWhole     dlt_consume_msg consumes exactly 16 + LEN           *)
(*   C15 LenOrderFree     Len(EncArg) does not depend on the byte order       *)
(*   C16 Stable           encode(decode(encode m)) = encode m                 *)
EXTENDS DltCodec, TLC, Json
CONSTANTS MaxArgs,      \* 0..2
          Rich,         \* TRUE: single arguments range over TRAI x SCOD x empty names as well
          AllFlags,     \* TRUE: all 64 combinations of sh/be/ueh/weid/wsid/wtms, FALSE: sh x be only for pairs
          SingleAllFlags, \* FALSE: messages with arguments only for two combinations of the optional standard-header fields
          Emit
Iota(n) == [i \in 1..n |-> i]                 \* pairwise distinct bytes: byte-order slips are visible
Widths == {8, 16, 32, 64, 128}
TypeVariants ==
     {[kind |-> "bool", w |-> 0]} \cup {[kind |-> "sint", w |-> w] : w \in Widths} \cup {[kind |-> "uint", w |-> w] : w \in Widths}
\cup {[kind |-> k, w |-> w] : k \in {"sfp", "ufp", "float"}, w \in {32, 64}} \cup {[kind |-> "str", w |-> 0], [kind |-> "raw", w |-> 0]}
MkArg(t, vari, trai, cod, nm) ==
  LET nameOnly == t.kind \in {"bool", "str", "raw"} IN
  [kind |-> t.kind, w |-> t.w, cod |-> cod, vari |-> vari, trai |-> trai,
   name |-> IF vari THEN Some(nm) ELSE None,
   unit |-> IF vari /\ ~nameOnly THEN Some(IF nm = <<>> THEN <<>> ELSE <<117>>) ELSE None,
   fp |-> IF t.kind \in {"sfp", "ufp"} THEN Some([q |-> <<63, 192, 0, 1>>, off |-> [i \in 1..(t.w \div 8) |-> 200 + i]]) ELSE None,
   val |-> CASE t.kind = "bool" -> <<"bool", <<1>>>>
             [] t.kind \in {"sint", "sfp"} -> <<"i", Iota(t.w \div 8)>>
             [] t.kind \in {"uint", "ufp"} -> <<"u", Iota(t.w \div 8)>>
             [] t.kind = "float" -> <<"f", Iota(t.w \div 8)>>
             [] t.kind = "str" -> <<"str", IF nm = <<>> THEN <<>> ELSE <<104, 195, 169>> >>
             [] t.kind = "raw" -> <<"raw", IF nm = <<>> THEN <<>> ELSE <<9, 0, 7>> >>]
ArgsBasic == {MkArg(t, v, FALSE, IF t.kind = "str" THEN 1 ELSE 0, <<110, 109>>) : t \in TypeVariants, v \in BOOLEAN}
ArgsRich == {MkArg(t, v, tr, c, nm) : t \in TypeVariants, v \in BOOLEAN, tr \in BOOLEAN, c \in {0, 1, 5}, nm \in {<<110, 109>>, <<>>}}
Args1 == IF Rich THEN ArgsRich ELSE ArgsBasic
Args2 == ArgsBasic
Flags == [sh : BOOLEAN, be : BOOLEAN, ueh : BOOLEAN, weid : BOOLEAN, wsid : BOOLEAN, wtms : BOOLEAN]
Kinds(ueh) == IF ueh THEN {"v", "nv", "ctl", "nw0", "nw2", "nvx"} ELSE {"nv", "nv0"}
PayloadOf(k, args) ==
  CASE k = "v" -> <<"v", args>> [] k = "nv" -> <<"nv", <<1, 2, 3, 4>>, <<5, 6>>>> [] k = "nv0" -> <<"nv", <<1, 2, 3, 4>>, <<>>>>
    [] k = "nvx" -> <<"nv", <<0, 0, 1, 0>>, <<68, 76, 84, 1, 9, 9, 9>>>>
    [] k = "ctl" -> <<"ctl", 2, <<8>>>> [] k = "nw0" -> <<"nw", <<>>>> [] k = "nw2" -> <<"nw", <<<<1, 2>>, <<>>>>>>
MtFor(k) == CASE k = "v" -> <<0, 4>> [] k \in {"nv", "nv0"} -> <<1, 9>> [] k = "nvx" -> <<5, 15>> [] k = "ctl" -> <<3, 1>> [] k \in {"nw0", "nw2"} -> <<2, 6>>
MkMsg(f, k, args) ==
  LET p == PayloadOf(k, args) IN
  [sh |-> IF f.sh THEN Some([secs |-> <<1,2,3,4>>, us |-> <<5,6,7,8>>, ecu |-> <<69, 67>>]) ELSE None,
   h |-> [ver |-> 1, be |-> f.be, ueh |-> f.ueh, mcnt |-> 7, ecu |-> IF f.weid THEN Some(<<69>>) ELSE None,
          sid |-> IF f.wsid THEN Some(<<11,12,13,14>>) ELSE None, tms |-> IF f.wtms THEN Some(<<21,22,23,24>>) ELSE None,
          plen |-> Len(EncPayload(p, f.be))],
   x |-> IF f.ueh THEN Some([verb |-> p[1] \in {"v", "nw"}, noar |-> IF p[1] \in {"v", "nw"} THEN Len(p[2]) ELSE 3,
                             mt |-> MtFor(k), ap |-> <<65, 80>>, ct |-> <<67, 84, 88, 49>>]) ELSE None,
   p |-> p]
SfxSet == {<<>>, <<0>>, <<68, 76, 84, 1>>, <<16, 0, 0, 0, 1>>, <<0, 2, 0, 0, 2, 0, 65, 66>>}

VARIABLES stage, f, k, args
vars == <<stage, f, k, args>>
Init == stage = "start" /\ f = [sh |-> FALSE, be |-> FALSE, ueh |-> FALSE, weid |-> FALSE, wsid |-> FALSE, wtms |-> FALSE] /\ k = "nv" /\ args = <<>>
Choose == /\ stage = "start"
          /\ \E ff \in Flags : \E kk \in Kinds(ff.ueh) : f' = ff /\ k' = kk
          /\ stage' = "msg" /\ args' = <<>>
AddArg == /\ stage = "msg" /\ k = "v" /\ Len(args) < MaxArgs
          /\ Len(args) = 0 => (SingleAllFlags \/ (f.weid = f.wtms /\ ~f.wsid))
          /\ Len(args) = 1 => (args[1] \in Args2 /\ (AllFlags \/ (f.ueh /\ f.weid /\ ~f.wsid /\ f.wtms)))
          /\ \E a \in (IF Len(args) = 0 THEN Args1 ELSE Args2) : args' = Append(args, a)
          /\ UNCHANGED <<stage, f, k>>
Next == Choose \/ AddArg
Spec == Init /\ [][Next]_vars

M == MkMsg(f, k, args)
IsMsg == stage = "msg"
GenWellFormed == IsMsg => WellFormed(M)
RoundTrip == IsMsg => LET b == EncMessage(M) IN
             \A sfx \in SfxSet : LET d == ParseVerdict(b \o sfx, f.sh) IN d.v = "msg" /\ d.m = M /\ d.consumed = Len(b)
PrefixIncomplete == IsMsg => LET b == EncMessage(M) IN
             /\ \A c \in 0..(Len(b) - 1) : ParseVerdict(SubSeq(b, 1, c), f.sh).v = "inc"
             /\ f.sh => /\ ConsumeVerdict(<<>>).v = "none"
                        /\ \A c \in 1..(Len(b) - 1) : ConsumeVerdict(SubSeq(b, 1, c)).v = "inc"
ConsumeWhole == (IsMsg /\ f.sh) => LET b == EncMessage(M) IN
             \A sfx \in SfxSet : LET d == ConsumeVerdict(b \o sfx) IN d.v = "skipped" /\ d.consumed = Len(b)
LenOrderFree == IsMsg => \A i \in 1..Len(args) : Len(EncArg(args[i], TRUE)) = Len(EncArg(args[i], FALSE))
Stable == IsMsg => LET b == EncMessage(M)  d == ParseVerdict(b, f.sh) IN d.v = "msg" /\ EncMessage(d.m) = b
DeclaredOk == IsMsg => LET b == EncMessage(M) IN DeclaredLen(b, f.sh) = Len(b)
Emitter == (Emit /\ IsMsg) => PrintT(<<"REPLAY", ToJson([m |-> M, bytes |-> EncMessage(M)])>>)
=============================================================================
