SPECIFICATION Spec
CONSTANTS MaxPieces = 2  Emit = TRUE
INVARIANTS InBuffer Aligned FilterIndependentCursor ParseConsumeAgree Emitter
PROPERTY Progress
CHECK_DEADLOCK FALSE
