------------------------------ MODULE Numerals ------------------------------
(* Natural numbers beyond TLC's 32-bit integers: big-endian sequences of      *)
(* base-1000 limbs (obtained *textually* from decimal strings by the harness, *)
(* so no arithmetic under test is reused).  <<>> and <<0>> both denote zero.  *)
EXTENDS Naturals, Sequences, SequencesExt
Base == 1000
IsNumeral(a) == \A i \in 1..Len(a) : a[i] \in 0..(Base - 1)
RECURSIVE Strip(_)
Strip(a) == IF a # <<>> /\ a[1] = 0 THEN Strip(Tail(a)) ELSE a          \* canonical form: no leading zero limb
Eq(a, b) == Strip(a) = Strip(b)
Less(a, b) ==
  LET x == Strip(a)  y == Strip(b) IN
  IF Len(x) # Len(y) THEN Len(x) < Len(y)
  ELSE \E i \in 1..Len(x) : x[i] < y[i] /\ \A j \in 1..(i - 1) : x[j] = y[j]
Leq(a, b) == Eq(a, b) \/ Less(a, b)
PadTo(a, n) == [i \in 1..(n - Len(a)) |-> 0] \o a
\* addition: fold from the least significant limb, carrying
Add(a, b) ==
  LET n == (IF Len(a) > Len(b) THEN Len(a) ELSE Len(b))
      x == PadTo(a, n)  y == PadTo(b, n)
      step(acc, i) == LET k == n + 1 - i  t == x[k] + y[k] + acc[1] IN <<t \div Base, <<t % Base>> \o acc[2]>>
      r == FoldLeft(step, <<0, <<>>>>, [i \in 1..n |-> i])
  IN Strip(<<r[1]>> \o r[2])
\* subtraction a - b for b <= a
Sub(a, b) ==
  LET n == Len(a)
      y == PadTo(Strip(b), n)
      step(acc, i) == LET k == n + 1 - i IN
                      IF a[k] >= y[k] + acc[1] THEN <<0, <<a[k] - y[k] - acc[1]>> \o acc[2]>> ELSE <<1, <<a[k] + Base - y[k] - acc[1]>> \o acc[2]>>
      r == FoldLeft(step, <<0, <<>>>>, [i \in 1..n |-> i])
  IN Strip(r[2])
\* small numbers
OfNat(n) == Strip(<<n \div (Base * Base), (n \div Base) % Base, n % Base>>)           \* n < 10^9
TwoPow32 == <<4, 294, 967, 296>>
TwoPow63 == <<9, 223, 372, 36, 854, 775, 808>>
TwoPow64 == <<18, 446, 744, 73, 709, 551, 616>>
\* value of a short numeral as a TLC integer (only for numerals < 2^31)
RECURSIVE ToNat(_)
ToNat(a) == IF a = <<>> THEN 0 ELSE ToNat(Front(a)) * Base + Last(a)
=============================================================================
