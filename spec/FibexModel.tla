----------------------------- MODULE FibexModel -----------------------------
(* C11 / C12 on the model.                                                  *)
(*  - abstract models (frames, PDUs, signal instances, signals, codings)    *)
(*    over the supported vocabulary, with duplicates, unknown references,   *)
(*    ties and multi-digit sequence numbers;                                *)
(*  - layouts: order of children, of instance children, of sections,        *)
(*    distribution over files, white-space text between elements;           *)
(*  - Render(model, layout) : token lists; Intended(model) : the model the  *)
(*    statement of C11 describes (declarative, not derived from the machine)*)
(*  - LoadIsIntended: the loader machine run on every rendering gives the   *)
(*    intended model; LookupIsIntended for extract_metadata;                *)
(*  - Damage: every token-boundary truncation / single token deletion of    *)
(*    the renderings, stepped token by token: LoaderTerminates (temporal).  *)
EXTENDS Fibex, Json
CONSTANT Tier            \* "quick" | "thorough": size of the model / layout universe

\* ---------------------------------------------------------------- abstract models
SigChoices == { <<>>, << <<1,"S_BOOL">> >>, << <<2,"S_UINT8">>, <<1,"S_BOOL">> >>,
                << <<10,"S_SINT32">>, <<9,"S_STRG_UTF8">>, <<100,"S_FLOA64">> >>,      \* numeric, not lexicographic, order
                << <<1,"S_BOOL">>, <<1,"S_UINT8">> >>,                                  \* tie: document order
                << <<1,"NOPE">>, <<0,"S_SINT32">> >>,                                    \* unknown reference skipped
                << <<1,"S_FLOA16">>, <<2,"SIG_A">> >>,                                   \* unsupported standard name skipped; custom signal
                << <<3,"SIG_B">>, <<1,"SIG_X">>, <<2,"SIG_A">> >>,                       \* signal -> coding -> base type; dangling coding
                << <<1,"S_RAW_X">>, <<2,"S_UINT8X">>, <<3,"S_RAW">> >> }                 \* ids that merely start with a standard name: unknown / custom
RefChoices == { << <<0,"P1">> >>, << <<5,"P2">>, <<2,"P1">> >>, << <<1,"P1">>, <<1,"P2">> >>, << <<10,"P2">>, <<9,"P1">>, <<11,"P2">> >>, << <<0,"PX">> >> }
SignalSets == { <<>>, << <<"SIG_A","COD_1">>, <<"SIG_B","COD_2">>, <<"SIG_X","COD_NONE">> >>,
                << <<"SIG_A","COD_1">>, <<"S_UINT8X","COD_2">>, <<"SIG_A","COD_2">> >> }   \* a later definition of a signal overrides; a custom id with a standard prefix
CodingSets == { << <<"COD_1","A_UINT16">>, <<"COD_2","A_ASCIISTRING">> >>, << <<"COD_1","A_NOPE">>, <<"COD_2","A_FLOAT64">>, <<"COD_1","A_INT8">> >> }
Pdu(id, d, sg) == [id |-> id, desc |-> d, sigs |-> sg]
Frame(id, n, ac, mt, rf) == [id |-> id, short_name |-> n, app |-> ac[1], ctx |-> ac[2], mtype |-> mt, minfo |-> mt, refs |-> rf]
AcChoices == {<<None, None>>, <<Some("APP"), Some("CTX")>>, <<Some("APP"), None>>}
ModelsFull ==
  { [pdus |-> << Pdu("P1", d, sg), Pdu("P2", None, sg2) >> \o (IF dupP THEN << Pdu("P1", Some("dup"), << <<0,"S_STRG_UTF8">> >>) >> ELSE <<>>),
     frames |-> << Frame("ID_1", "f1", ac, Some("MT"), rf) >>
              \o (IF dupF THEN << Frame("ID_1", "f1dup", ac, None, << <<0,"P2">> >>) >> ELSE <<>>)
              \o (IF two THEN << Frame("ID_2", "f2", <<Some("APP"), Some("CTX")>>, None, << <<1,"P2">> >>) >> ELSE <<>>),
     signals |-> ss, codings |-> cs ]
    : d \in {None, Some("d")}, sg \in SigChoices, sg2 \in {<<>>, << <<7,"S_RAWD">> >>}, dupP \in BOOLEAN, ac \in AcChoices, rf \in RefChoices,
      dupF \in BOOLEAN, two \in BOOLEAN, ss \in SignalSets, cs \in CodingSets }
\* the whole vocabulary, one name per model
StdNames == {"S_BOOL", "S_SINT8", "S_UINT8", "S_SINT16", "S_UINT16", "S_SINT32", "S_UINT32", "S_SINT64", "S_UINT64", "S_FLOA16", "S_FLOA32", "S_FLOA64",
             "S_STRG_ASCII", "S_STRG_UTF8", "S_RAWD", "S_RAW", "S_UNKNOWN"}
BaseNames == {"A_UINT8", "A_INT8", "A_SINT8", "A_UINT16", "A_INT16", "A_SINT16", "A_UINT32", "A_INT32", "A_SINT32", "A_UINT64", "A_INT64", "A_SINT64",
              "A_FLOAT32", "A_FLOAT64", "A_ASCIISTRING", "A_UNICODE2STRING", "A_BITFIELD"}
ModelsVocab ==
  { [pdus |-> << Pdu("P1", None, << <<1, n>> >>) >>, frames |-> << Frame("ID_1", "f", <<None, None>>, None, << <<0,"P1">> >>) >>, signals |-> <<>>, codings |-> <<>>] : n \in StdNames }
  \cup
  { [pdus |-> << Pdu("P1", None, << <<1, "SIG">> >>) >>, frames |-> << Frame("ID_1", "f", <<None, None>>, None, << <<0,"P1">> >>) >>,
     signals |-> << <<"SIG", "COD">> >>, codings |-> << <<"COD", b>> >>] : b \in BaseNames }
ModelsQuick == { m \in ModelsFull : m.pdus[2].sigs = <<>> /\ Len(m.frames) <= 2 /\ (Len(m.frames) = 2 => m.frames[2].id = "ID_1") /\ m.pdus[1].desc = None
                                   /\ m.signals # <<>> /\ m.frames[1].app = m.frames[1].ctx }
\* the damage universe multiplies every document by all its token positions: a small, structure-complete set of documents
ModelsDamage == { m \in ModelsQuick : m.pdus[1].sigs \in {<< <<2,"S_UINT8">>, <<1,"S_BOOL">> >>, << <<3,"SIG_B">>, <<1,"SIG_X">>, <<2,"SIG_A">> >>}
                                      /\ m.frames[1].refs \in {<< <<5,"P2">>, <<2,"P1">> >>} /\ Len(m.pdus) = 2 /\ Len(m.frames) = 1 /\ Len(m.signals) = 3
                                      /\ m.signals[3][1] = "SIG_X" /\ m.codings[1][2] = "A_UINT16" }
Models == CASE Tier = "quick" -> ModelsVocab \cup ModelsQuick
            [] Tier = "thorough" -> ModelsVocab \cup ModelsFull
            [] Tier = "damage-quick" -> ModelsDamage
            [] Tier = "damage-thorough" -> ModelsDamage \cup { m \in ModelsQuick : Len(m.frames) = 2 /\ m.frames[1].refs = << <<0,"P1">> >> /\ m.pdus[1].sigs = << <<1,"S_BOOL">> >> }

Layouts == CASE Tier = "quick" -> {l \in [perm : {1, 4, 6}, inst : 1..2, sect : {1, 3}, split : 1..4, ws : {FALSE}] : (l.perm + l.inst + l.sect + l.split) % 3 = 0}
             [] Tier = "thorough" -> [perm : 1..6, inst : 1..2, sect : 1..4, split : 1..4, ws : BOOLEAN]
             [] Tier = "damage-quick" -> [perm : {1, 4}, inst : {1}, sect : {1, 3}, split : {1, 2}, ws : {FALSE}]
             [] Tier = "damage-thorough" -> [perm : {1, 4, 6}, inst : 1..2, sect : {1, 3}, split : 1..3, ws : BOOLEAN]

\* The thorough universe (25 954 models x 384 layouts) is ten million documents; each model is paired with the 16-17 layouts whose
\* index is congruent to a hash of the model modulo 23 (23 is coprime to every dimension of the layout space, so the layouts of one
\* model spread over all dimensions, and models that differ in one component get different layouts): about 430 000 documents.
LayoutIdx(l) == ((((l.perm - 1) * 2 + (l.inst - 1)) * 4 + (l.sect - 1)) * 4 + (l.split - 1)) * 2 + (IF l.ws THEN 1 ELSE 0)
ModelHash(m) == Len(m.pdus) * 7 + Len(m.frames) * 3 + Len(m.signals) + Len(m.pdus[1].sigs) * 5 + Len(m.frames[1].refs) * 11
                + (IF m.pdus[1].desc = None THEN 0 ELSE 13) + (IF m.frames[1].app = None THEN 0 ELSE 17)
                + (IF m.frames[1].ctx = None THEN 0 ELSE 19) + Len(m.codings) * 2
LayoutsFor(m) == IF Tier = "thorough" THEN {l \in Layouts : (LayoutIdx(l) + ModelHash(m)) % 23 = 0} ELSE Layouts

\* ---------------------------------------------------------------- rendering
Perm3(p, a, b, c) == CASE p = 1 -> a \o b \o c [] p = 2 -> a \o c \o b [] p = 3 -> b \o a \o c
                       [] p = 4 -> b \o c \o a [] p = 5 -> c \o a \o b [] p = 6 -> c \o b \o a
NumTxt(n) == CASE n = 0 -> "0" [] n = 1 -> "1" [] n = 2 -> "2" [] n = 3 -> "3" [] n = 5 -> "5" [] n = 7 -> "7" [] n = 9 -> "9"
               [] n = 10 -> "10" [] n = 11 -> "11" [] n = 12 -> "12" [] n = 100 -> "100"
Ws(l) == IF l.ws THEN <<T(" ")>> ELSE <<>>
RECURSIVE Cat(_)
Cat(ss) == IF ss = <<>> THEN <<>> ELSE Head(ss) \o Cat(Tail(ss))
RSigInst(l, x) == <<SId("SIGNAL-INSTANCE", "si")>> \o Ws(l)
    \o (IF l.inst = 1 THEN Leaf("SEQUENCE-NUMBER", NumTxt(x[1])) \o <<MRef("SIGNAL-REF", x[2])>>
                      ELSE <<MRef("SIGNAL-REF", x[2])>> \o Leaf("SEQUENCE-NUMBER", NumTxt(x[1])))
    \o <<E("SIGNAL-INSTANCE")>> \o Ws(l)
RPdu(l, p) == <<SId("PDU", p.id)>> \o Ws(l)
    \o Perm3(l.perm, Leaf("SHORT-NAME", "pn"),
                     (IF IsSome(p.desc) THEN Leaf("DESC", p.desc[1]) ELSE <<>>) \o Leaf("BYTE-LENGTH", "0") \o Leaf("PDU-TYPE", "OTHER"),
                     <<S("SIGNAL-INSTANCES")>> \o Cat([i \in 1..Len(p.sigs) |-> RSigInst(l, p.sigs[i])]) \o <<E("SIGNAL-INSTANCES")>>)
    \o <<E("PDU")>> \o Ws(l)
RPduInst(l, x) == <<SId("PDU-INSTANCE", "pi")>>
    \o (IF l.inst = 1 THEN <<MRef("PDU-REF", x[2])>> \o Leaf("SEQUENCE-NUMBER", NumTxt(x[1]))
                      ELSE Leaf("SEQUENCE-NUMBER", NumTxt(x[1])) \o <<MRef("PDU-REF", x[2])>>)
    \o <<E("PDU-INSTANCE")>> \o Ws(l)
Opt(tag, o) == IF IsSome(o) THEN Leaf(tag, o[1]) ELSE <<>>
RFrame(l, f) == <<SId("FRAME", f.id)>> \o Ws(l)
    \o Perm3(l.perm, Leaf("SHORT-NAME", f.short_name) \o (IF l.inst = 2 THEN Leaf("DESC", "frame doc") ELSE <<>>)     \* a description on something that is not a PDU
                        \o Leaf("BYTE-LENGTH", "1") \o Leaf("FRAME-TYPE", "OTHER"),
                     <<S("PDU-INSTANCES")>> \o Cat([i \in 1..Len(f.refs) |-> RPduInst(l, f.refs[i])]) \o <<E("PDU-INSTANCES")>>,
                     <<S("MANUFACTURER-EXTENSION")>> \o Opt("MESSAGE_TYPE", f.mtype) \o Opt("CONTEXT_ID", f.ctx)
                        \o Opt("MESSAGE_INFO", f.minfo) \o Opt("APPLICATION_ID", f.app) \o <<E("MANUFACTURER-EXTENSION")>>)
    \o <<E("FRAME")>> \o Ws(l)
RSignal(l, x) == <<SId("SIGNAL", x[1])>> \o Leaf("SHORT-NAME", "sn") \o <<MRef("CODING-REF", x[2]), E("SIGNAL")>> \o Ws(l)
RCoding(l, x) == IF l.inst = 1 THEN <<SId("CODING", x[1]), MBase("CODED-TYPE", x[2]), E("CODING")>> \o Ws(l)
                 ELSE <<SId("CODING", x[1]), [Tok("S", "CODED-TYPE") EXCEPT !.base = Some(x[2])]>> \o Leaf("BIT-LENGTH", "8") \o <<E("CODED-TYPE"), E("CODING")>> \o Ws(l)
Wrap(body) == <<S("FIBEX"), S("ELEMENTS")>> \o body \o <<E("ELEMENTS"), E("FIBEX")>>
RPdus(l, m) == <<S("PDUS")>> \o Cat([i \in 1..Len(m.pdus) |-> RPdu(l, m.pdus[i])]) \o <<E("PDUS")>>
RFrames(l, m) == <<S("FRAMES")>> \o Cat([i \in 1..Len(m.frames) |-> RFrame(l, m.frames[i])]) \o <<E("FRAMES")>>
RSignals(l, m) == <<S("SIGNALS")>> \o Cat([i \in 1..Len(m.signals) |-> RSignal(l, m.signals[i])]) \o <<E("SIGNALS")>>
RCodings(l, m) == <<S("CODINGS")>> \o Cat([i \in 1..Len(m.codings) |-> RCoding(l, m.codings[i])]) \o <<E("CODINGS")>>
Sections(l, m) == CASE l.sect = 1 -> RPdus(l, m) \o RFrames(l, m) \o RSignals(l, m) \o RCodings(l, m)
                    [] l.sect = 2 -> RFrames(l, m) \o RPdus(l, m) \o RCodings(l, m) \o RSignals(l, m)
                    [] l.sect = 3 -> RCodings(l, m) \o RSignals(l, m) \o RFrames(l, m) \o RPdus(l, m)
                    [] l.sect = 4 -> RSignals(l, m) \o RFrames(l, m) \o RCodings(l, m) \o RPdus(l, m)
H(q, k) == LET c == (Len(q) + 1) \div 2 IN IF k = 1 THEN SubSeq(q, 1, c) ELSE SubSeq(q, c + 1, Len(q))
Half(m, k) == [pdus |-> H(m.pdus, k), frames |-> H(m.frames, k), signals |-> H(m.signals, k), codings |-> H(m.codings, k)]
Render(m, l) ==
  CASE l.split = 1 -> << Wrap(Sections(l, m)) >>
    [] l.split = 2 -> << Wrap(RPdus(l, m) \o RCodings(l, m)), Wrap(RSignals(l, m) \o RFrames(l, m)) >>
    [] l.split = 3 -> << Wrap(RFrames(l, m)), Wrap(RSignals(l, m)), Wrap(RCodings(l, m) \o RPdus(l, m)) >>
    [] l.split = 4 -> << Wrap(Sections(l, Half(m, 1))), Wrap(Sections(l, Half(m, 2))) >>     \* every list cut in two: duplicates end up in different files

\* ---------------------------------------------------------------- the intended model (statement of C11, declarative)
SortedBySeq(xs) ==   \* xs ordered by sequence number, ties in document order
  LET n == Len(xs)
      rank(i) == Cardinality({j \in 1..n : xs[j][1] < xs[i][1] \/ (xs[j][1] = xs[i][1] /\ j < i)}) + 1
  IN [k \in 1..n |-> xs[CHOOSE i \in 1..n : rank(i) = k][2]]
FirstWith(seq, id) == seq[CHOOSE i \in 1..Len(seq) : seq[i].id = id /\ \A j \in 1..(i-1) : seq[j].id # id]
\* a signal reference denotes: a standard signal name, else signal -> coding -> base data type (the last definition of a signal / coding id counts)
Denotes(r, m) == SigType(r, m.signals, m.codings)
IntendedPdu(p, m) == [description |-> p.desc,
                      signal_types |-> LET rs == SortedBySeq(p.sigs)  ts == SelectSeq([i \in 1..Len(rs) |-> Denotes(rs[i], m)], IsSome) IN [i \in 1..Len(ts) |-> ts[i][1]]]
Intended(m) ==
  LET pids == {m.pdus[i].id : i \in 1..Len(m.pdus)}
      dangling == \E i \in 1..Len(m.frames) : \E j \in 1..Len(m.frames[i].refs) : m.frames[i].refs[j][2] \notin pids
      FM(f) == [short_name |-> f.short_name, app |-> f.app, ctx |-> f.ctx, mtype |-> f.mtype, minfo |-> f.minfo,
                pdus |-> LET rs == SortedBySeq(f.refs) IN [k \in 1..Len(rs) |-> IntendedPdu(FirstWith(m.pdus, rs[k]), m)]]
      fids == {m.frames[i].id : i \in 1..Len(m.frames)}
      keyedFrames == SelectSeq(m.frames, LAMBDA f : IsSome(f.ctx) /\ IsSome(f.app))
      keys == {<<keyedFrames[i].ctx[1], keyedFrames[i].app[1], keyedFrames[i].id>> : i \in 1..Len(keyedFrames)}
      FirstKeyed(k) == keyedFrames[CHOOSE i \in 1..Len(keyedFrames) : <<keyedFrames[i].ctx[1], keyedFrames[i].app[1], keyedFrames[i].id>> = k
                                     /\ \A j \in 1..(i-1) : <<keyedFrames[j].ctx[1], keyedFrames[j].app[1], keyedFrames[j].id>> # k]
  IN IF dangling THEN None
     ELSE Some([frame_map |-> [id \in fids |-> FM(FirstWith(m.frames, id))],
                frame_map_with_key |-> [k \in keys |-> FM(FirstKeyed(k))]])

\* ---------------------------------------------------------------- what the statement leaves open
\* C11 says "ordered by sequence number" (the order among EQUAL numbers is not stated), fixes "the first definition wins" for duplicated
\* frame and PDU ids only (not for signal / coding ids), and quantifies over "the supported type vocabulary" (a coding with an unsupported
\* base data type, a signal whose coding does not exist, the standard name S_FLOA16 that has no argument type: skipping is what the code
\* does, refusing the load would be as good).  Accept(m) is the set of results the statement allows for model m; Intended(m) - what the
\* code and the loader machine do - is one of them (theorem IntendedAccepted in MCFibex).
SortedBySeqP(xs, rev) ==   \* ties in document order, or (rev) in reverse document order: with at most two tied entries these are all orders
  LET n == Len(xs)
      before(j, i) == xs[j][1] < xs[i][1] \/ (xs[j][1] = xs[i][1] /\ (IF rev THEN j > i ELSE j < i))
      rank(i) == Cardinality({j \in 1..n : before(j, i)}) + 1
  IN [k \in 1..n |-> xs[CHOOSE i \in 1..n : rank(i) = k][2]]
PickWith(seq, key, first) == LET idx == {i \in 1..Len(seq) : seq[i][1] = key} IN
                             IF idx = {} THEN None ELSE Some(seq[CHOOSE i \in idx : \A j \in idx : IF first THEN i <= j ELSE j <= i][2])
SigTypeP(r, signals, codings, sf, cf) ==
  IF IsStdName(r) THEN StdSignal(r)
  ELSE LET c == PickWith(signals, r, sf) IN
       IF c = None THEN None
       ELSE LET b == PickWith(codings, c[1], cf) IN IF b = None THEN None ELSE BaseType(b[1])
IntendedPduP(p, m, rev, sf, cf) ==
  [description |-> p.desc,
   signal_types |-> LET rs == SortedBySeqP(p.sigs, rev)  ts == SelectSeq([i \in 1..Len(rs) |-> SigTypeP(rs[i], m.signals, m.codings, sf, cf)], IsSome) IN [i \in 1..Len(ts) |-> ts[i][1]]]
IntendedP(m, rev, sf, cf) ==
  LET pids == {m.pdus[i].id : i \in 1..Len(m.pdus)}
      dangling == \E i \in 1..Len(m.frames) : \E j \in 1..Len(m.frames[i].refs) : m.frames[i].refs[j][2] \notin pids
      FM(f) == [short_name |-> f.short_name, app |-> f.app, ctx |-> f.ctx, mtype |-> f.mtype, minfo |-> f.minfo,
                pdus |-> LET rs == SortedBySeqP(f.refs, rev) IN [k \in 1..Len(rs) |-> IntendedPduP(FirstWith(m.pdus, rs[k]), m, rev, sf, cf)]]
      fids == {m.frames[i].id : i \in 1..Len(m.frames)}
      keyedFrames == SelectSeq(m.frames, LAMBDA f : IsSome(f.ctx) /\ IsSome(f.app))
      keys == {<<keyedFrames[i].ctx[1], keyedFrames[i].app[1], keyedFrames[i].id>> : i \in 1..Len(keyedFrames)}
      FirstKeyed(k) == keyedFrames[CHOOSE i \in 1..Len(keyedFrames) : <<keyedFrames[i].ctx[1], keyedFrames[i].app[1], keyedFrames[i].id>> = k
                                     /\ \A j \in 1..(i-1) : <<keyedFrames[j].ctx[1], keyedFrames[j].app[1], keyedFrames[j].id>> # k]
  IN IF dangling THEN None
     ELSE Some([frame_map |-> [id \in fids |-> FM(FirstWith(m.frames, id))],
                frame_map_with_key |-> [k \in keys |-> FM(FirstKeyed(k))]])
\* a signal reference that leaves the supported vocabulary (under some resolution of duplicated ids)
OutOfVocabulary(m) ==
  \E i \in 1..Len(m.pdus) : \E j \in 1..Len(m.pdus[i].sigs) : LET r == m.pdus[i].sigs[j][2] IN
     \/ r = "S_FLOA16"
     \/ ~IsStdName(r) /\ \E sf \in BOOLEAN, cf \in BOOLEAN : PickWith(m.signals, r, sf) # None /\ SigTypeP(r, m.signals, m.codings, sf, cf) = None
Accept(m) == {IntendedP(m, rev, sf, cf) : rev \in BOOLEAN, sf \in BOOLEAN, cf \in BOOLEAN} \cup (IF OutOfVocabulary(m) THEN {None} ELSE {})

\* ---------------------------------------------------------------- damage (token boundaries)
AllToks(files) == Cat(files)
\* cut the document list after `c` tokens in total (later files disappear), or delete token number `c`
RECURSIVE CutFiles(_, _)
CutFiles(files, c) == IF files = <<>> THEN <<>> ELSE IF c <= 0 THEN <<>>
                      ELSE IF c >= Len(Head(files)) THEN <<Head(files)>> \o CutFiles(Tail(files), c - Len(Head(files)))
                      ELSE <<SubSeq(Head(files), 1, c)>>
RECURSIVE DelTok(_, _)
DelTok(files, c) == IF files = <<>> THEN <<>>
                    ELSE IF c <= Len(Head(files)) THEN <<SubSeq(Head(files), 1, c - 1) \o SubSeq(Head(files), c + 1, Len(Head(files)))>> \o Tail(files)
                    ELSE <<Head(files)>> \o DelTok(Tail(files), c - Len(Head(files)))
\* drop one attribute of token number c
RECURSIVE DelAttr(_, _)
DelAttr(files, c) == IF files = <<>> THEN <<>>
                     ELSE IF c <= Len(Head(files)) THEN <<[Head(files) EXCEPT ![c] = [@ EXCEPT !.id = None, !.ref = None, !.base = None]]>> \o Tail(files)
                     ELSE <<Head(files)>> \o DelAttr(Tail(files), c - Len(Head(files)))
Damaged(files, d) == CASE d[1] = "cut" -> CutFiles(files, d[2]) [] d[1] = "del" -> DelTok(files, d[2]) [] d[1] = "attr" -> DelAttr(files, d[2]) [] OTHER -> files
=============================================================================
