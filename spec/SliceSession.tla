---------------------------- MODULE SliceSession ----------------------------
(* A parsing session over one buffer (C04, C06): the caller repeatedly hands  *)
(* the unconsumed remainder to dlt_message (with or without filter) or to     *)
(* dlt_consume_msg until the call does not return Ok.                         *)
(*   state   : buf (constant during a session), pos (bytes consumed so far),  *)
(*             live (the last call returned Ok)                               *)
(*   actions : Parse(flt), Consume - one per public call                      *)
(* The same Step function is used by the exhaustive instance (mc/MCSession)   *)
(* and by the trace specification (trace/TraceSlice: SessionOk).              *)
EXTENDS DltCodec, DltFilter, TLC
Rest(buf, pos) == Sub(buf, pos + 1, Len(buf))
\* flt: None | Some(cfg)
ParseAt(buf, pos, sh, flt) ==
  IF flt = None THEN ParseVerdict(Rest(buf, pos), sh)
  ELSE LET F(hdr, ext) == Dropped(flt[1], hdr, ext) IN ParseVerdictF(Rest(buf, pos), sh, F)
ConsumeAt(buf, pos) == ConsumeVerdict(Rest(buf, pos))
OkClass(v) == v \in {"msg", "filtered", "skipped"}
\* one call: new position and liveness
StepParse(buf, pos, sh, flt) == LET d == ParseAt(buf, pos, sh, flt) IN
                                [d |-> d, pos |-> IF OkClass(d.v) THEN pos + d.consumed ELSE pos, live |-> OkClass(d.v)]
StepConsume(buf, pos) == LET d == ConsumeAt(buf, pos) IN
                         [d |-> d, pos |-> IF OkClass(d.v) THEN pos + d.consumed ELSE pos, live |-> OkClass(d.v)]

\* ---- ground truth segmentation of a buffer that is a concatenation of framed messages (no junk):
\*      the boundaries given by the length fields alone.  Bounds(buf, sh) = set of positions.
RECURSIVE BoundsFrom(_, _, _)
BoundsFrom(buf, p, sh) ==
  LET o == IF sh THEN 16 ELSE 0 IN
  IF Len(buf) - p < o + 4 THEN {p}
  ELSE LET LEN == U16(buf, p + o + 3, TRUE) IN
       IF LEN < 4 \/ p + o + LEN > Len(buf) THEN {p} ELSE {p} \cup BoundsFrom(buf, p + o + LEN, sh)
Bounds(buf, sh) == BoundsFrom(buf, 0, sh)

\* ---- the whole session as the list of calls a driver makes (repeat until the call is not Ok; at most `fuel` calls)
RECURSIVE RunSession(_, _, _, _, _, _)
RunSession(buf, pos, sh, flt, api, fuel) ==
  IF fuel = 0 THEN <<>>
  ELSE LET st == IF api = "parse" THEN StepParse(buf, pos, sh, flt) ELSE StepConsume(buf, pos)
           d == st.d
           rec == [pos |-> pos, v |-> d.v, consumed |-> IF OkClass(d.v) THEN d.consumed ELSE 0,
                   n |-> IF d.v = "filtered" THEN d.n ELSE IF d.v = "msg" THEN d.m.h.plen ELSE 0,
                   \* latitude (DESIGN 4.1): a dropped message whose payload is malformed may also be rejected
                   alt |-> IF api = "parse" /\ d.v = "filtered" /\ ParseAt(buf, pos, sh, None).v = "rej" THEN "rej" ELSE d.v]
       IN IF st.live THEN <<rec>> \o RunSession(buf, st.pos, sh, flt, api, fuel - 1) ELSE <<rec>>
=============================================================================
