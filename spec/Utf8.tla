-------------------------------- MODULE Utf8 --------------------------------
(* Well-formed UTF-8 byte sequences (Unicode 15, table 3-7) as a DFA.        *)
(* ValidUpTo(s) = length of the longest prefix of s that is valid UTF-8,     *)
(* i.e. what Rust's Utf8Error::valid_up_to reports (Len(s) if all valid).    *)
EXTENDS Naturals, Sequences, SequencesExt
\* DFA state: <<k, lo, hi, good>>: k continuation bytes still expected, the next one must lie in lo..hi,
\* good = length of the valid prefix so far; k = 99 is the dead state.
In(b, lo, hi) == lo <= b /\ b <= hi
Lead(b, good, i) ==
  CASE b <= 127          -> <<0, 0, 0, i>>
    [] In(b, 194, 223)   -> <<1, 128, 191, good>>
    [] b = 224           -> <<2, 160, 191, good>>
    [] In(b, 225, 236)   -> <<2, 128, 191, good>>
    [] b = 237           -> <<2, 128, 159, good>>
    [] In(b, 238, 239)   -> <<2, 128, 191, good>>
    [] b = 240           -> <<3, 144, 191, good>>
    [] In(b, 241, 243)   -> <<3, 128, 191, good>>
    [] b = 244           -> <<3, 128, 143, good>>
    [] OTHER             -> <<99, 0, 0, good>>
ValidUpTo(s) ==
  LET step(st, i) ==
        IF st[1] = 99 THEN st
        ELSE IF st[1] = 0 THEN Lead(s[i], st[4], i)
        ELSE IF In(s[i], st[2], st[3])
             THEN IF st[1] = 1 THEN <<0, 0, 0, i>> ELSE <<st[1] - 1, 128, 191, st[4]>>
             ELSE <<99, 0, 0, st[4]>>
  IN FoldLeftDomain(step, <<0, 0, 0, 0>>, s)[4]
Valid(s) == ValidUpTo(s) = Len(s)
=============================================================================
