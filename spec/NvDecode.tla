------------------------------ MODULE NvDecode ------------------------------
(* Non-verbose decoding end to end - the composition an application builds   *)
(* from the crate's pieces (growth beyond the listed properties):            *)
(*                                                                           *)
(*   files --Load--> model                      (Fibex: the loader machine)  *)
(*   bytes --ParseVerdict--> message            (DltCodec)                   *)
(*   (model, message id, extended header) --Lookup--> frame      (Fibex)     *)
(*   (frame's signal types, payload, byte order) --ConstructArgs--> args     *)
(*                                                                           *)
(* Nothing new is specified here; the module states how the existing pieces  *)
(* fit: the id text is "ID_<decimal message id>", the lookup key uses the    *)
(* application / context ids of the parsed extended header (NUL-trimmed),    *)
(* the signal types are those of the frame's PDUs in frame order, and the    *)
(* byte order is the one announced in the standard header.                   *)
EXTENDS FibexModel
C == INSTANCE DltCodec

\* message ids are 4-byte big-endian sequences; TLC integers are 32 bit, and no document names an id >= 2^31
IdText(idb) == IF idb[1] >= 128 THEN "ID_big" ELSE "ID_" \o ToString(((idb[1] * 256 + idb[2]) * 256 + idb[3]) * 256 + idb[4])
\* the ids documents use (TLC strings cannot be taken apart): a table; any other id matches no document id
TextOf(b) == CASE b = <<65, 80, 80>> -> "APP" [] b = <<67, 84, 88>> -> "CTX" [] OTHER -> "?"
RECURSIVE Flatten(_)
Flatten(pdus) == IF pdus = <<>> THEN <<>> ELSE Head(pdus).signal_types \o Flatten(Tail(pdus))

\* meta: None | Some(model) as returned by Outcome(files)
Decode(meta, buf, sh) ==
  LET v == C!ParseVerdict(buf, sh) IN
  IF meta = None THEN [v |-> "nomodel"]
  ELSE IF v.v # "msg" THEN [v |-> "nomsg"]
  ELSE IF v.m.p[1] # "nv" THEN [v |-> "notnv"]
  ELSE LET ext == IF v.m.x = <<>> THEN None ELSE Some([ap |-> TextOf(v.m.x[1].ap), ct |-> TextOf(v.m.x[1].ct)])
           fr == Lookup(meta[1], IdText(v.m.p[2]), ext) IN
       IF fr = None THEN [v |-> "nometa"]
       ELSE C!ConstructArgs(Flatten(fr[1].pdus), v.m.p[3], v.m.h.be)
NvDecode(files, buf, sh) == Decode(Outcome(files), buf, sh)
=============================================================================
