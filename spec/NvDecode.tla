------------------------------ MODULE NvDecode ------------------------------
(* Non-verbose decoding end to end - the composition an application builds   *)
(* from the crate's pieces (growth beyond the listed properties):            *)
(*                                                                           *)
(*   files --Load--> model                      (Fibex: the loader machine)  *)
(*   bytes --ParseVerdict--> message            (DltCodec)                   *)
(*   (model, message id, extended header) --Lookup--> frame      (Fibex)     *)
(*   (frame's signal types, payload, byte order) --ConstructArgs--> args     *)
(*                                                                           *)
(* Nothing new is specified here; the module states how the existing pieces  *)
(* fit: the id text is "ID_<decimal message id>", the lookup key uses the    *)
(* application / context ids of the parsed extended header (NUL-trimmed),    *)
(* the signal types are those of the frame's PDUs in frame order, and the    *)
(* byte order is the one announced in the standard header.                   *)
EXTENDS FibexModel
C == INSTANCE DltCodec

\* message ids are 4-byte big-endian sequences; TLC integers are 32 bit, so the decimal text of ids up to 2^32 - 1 is put together
\* from the quotient and remainder by 10 000 (hi * 65536 + lo = (6 * hi) * 10000 + (5536 * hi + lo), every intermediate value < 2^31)
Pad4(r) == (IF r < 10 THEN "000" ELSE IF r < 100 THEN "00" ELSE IF r < 1000 THEN "0" ELSE "") \o ToString(r)
IdText(idb) == LET hi == idb[1] * 256 + idb[2]  lo == idb[3] * 256 + idb[4]
                   t == 5536 * hi + lo
                   q == 6 * hi + t \div 10000  r == t % 10000 IN
               "ID_" \o (IF q = 0 THEN ToString(r) ELSE ToString(q) \o Pad4(r))
\* the ids documents use (TLC strings cannot be taken apart): a table; any other id matches no document id
TextOf(b) == CASE b = <<65, 80, 80>> -> "APP" [] b = <<67, 84, 88>> -> "CTX"
               [] b = <<65, 112, 112>> -> "App" [] b = <<97, 112, 112>> -> "app"         \* case variants are ids of their own
               [] b = <<67, 116, 120>> -> "Ctx" [] b = <<99, 116, 120>> -> "ctx" [] OTHER -> "?"
RECURSIVE Flatten(_)
Flatten(pdus) == IF pdus = <<>> THEN <<>> ELSE Head(pdus).signal_types \o Flatten(Tail(pdus))

\* meta: None | Some(model) as returned by Outcome(files)
Decode(meta, buf, sh) ==
  LET v == C!ParseVerdict(buf, sh) IN
  IF meta = None THEN [v |-> "nomodel"]
  ELSE IF v.v # "msg" THEN [v |-> "nomsg"]
  ELSE IF v.m.p[1] # "nv" THEN [v |-> "notnv"]
  ELSE LET ext == IF v.m.x = <<>> THEN None ELSE Some([ap |-> TextOf(v.m.x[1].ap), ct |-> TextOf(v.m.x[1].ct)])
           fr == Lookup(meta[1], IdText(v.m.p[2]), ext) IN
       IF fr = None THEN [v |-> "nometa"]
       ELSE C!ConstructArgs(Flatten(fr[1].pdus), v.m.p[3], v.m.h.be)
NvDecode(files, buf, sh) == Decode(Outcome(files), buf, sh)
=============================================================================
