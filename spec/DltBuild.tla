------------------------------ MODULE DltBuild ------------------------------
(* The message builder (C15), timestamps (C17) and fixed-point conversion    *)
(* (C18).                                                                    *)
EXTENDS DltCodec
Num == INSTANCE Numerals
\* ---------------------------------------------------------------- C15
\* conf = [ver, cnt, be, ecu, sid, tms : as in the header, p : payload, x : None | Some([mt, ap, ct])]
\* Message::new: payload length from the serialised payload; VERB / NOAR as the payload kind requires
\* (verbose AND network trace: VERB = 1, NOAR = number of arguments / slices; otherwise VERB = 0, NOAR = 0).
NewMessage(conf, sh) ==
  LET p == conf.p  isv == p[1] \in {"v", "nw"} IN
  [sh |-> sh,
   h |-> [ver |-> conf.ver, be |-> conf.be, ueh |-> IsSome(conf.x), mcnt |-> conf.cnt, ecu |-> conf.ecu, sid |-> conf.sid, tms |-> conf.tms,
          plen |-> Len(EncPayload(p, conf.be))],
   x |-> IF IsSome(conf.x) THEN Some([verb |-> isv, noar |-> IF isv THEN Len(p[2]) ELSE 0, mt |-> conf.x[1].mt, ap |-> conf.x[1].ap, ct |-> conf.x[1].ct]) ELSE None,
   p |-> p]
DefaultEcu == <<69, 67, 85>>
\* add_storage_header(Some(ts)): only the storage header changes; ECU id of the header or "ECU"
AddStorageHeader(m, secs, us) == [m EXCEPT !.sh = Some([secs |-> secs, us |-> us, ecu |-> IF IsSome(m.h.ecu) THEN m.h.ecu[1] ELSE DefaultEcu])]
HtypOf(m) == HtypEnc([ueh |-> m.h.ueh, be |-> m.h.be, weid |-> IsSome(m.h.ecu), wsid |-> IsSome(m.h.sid), wtms |-> IsSome(m.h.tms), ver |-> m.h.ver])
ByteLen(m) == HdrsLen(HtypOf(m)) + m.h.plen
\* the configuration fits the 16-bit length field and the 8-bit argument count
ConfFits(conf) == /\ HdrsLen(HtypOf(NewMessage(conf, None))) + Len(EncPayload(conf.p, conf.be)) <= 65535
                  /\ (conf.p[1] \in {"v", "nw"} => Len(conf.p[2]) <= 255)

\* ---------------------------------------------------------------- C17 (numerals: base-1000 limbs)
\* from_ms: seconds = ms div 1000 = the numeral without its last limb; microseconds = last limb * 1000
FromMs(limbs) == [secs |-> Num!Strip(Front(limbs)), us |-> Num!OfNat(Last(limbs) * 1000)]
\* from_us: seconds = us div 10^6 = the numeral without its last two limbs; microseconds = the last two limbs
FromUs(limbs) == LET n == Len(limbs) IN [secs |-> Num!Strip(SubSeq(limbs, 1, n - 2)), us |-> Num!Strip(SubSeq(limbs, n - 1, n))]
FitsU32(numeral) == Num!Less(numeral, Num!TwoPow32)

\* ---------------------------------------------------------------- C18
\* shape = [kind, hasfp, vtag, vlen]; prod = [cls \in {"num", "neg", "nan", "big"}, limbs]; off = [neg, limbs]
\* Result: [v |-> "none"] / [v |-> "some", limbs] / [v |-> "some-any"] (outside the stated domain: any value, no panic)
ToRealValue(shape, prod, off) ==
  IF ~(shape.kind \in {"sfp", "ufp"} /\ shape.hasfp /\ shape.vtag \in {"i", "u"}) THEN [v |-> "none"]
  ELSE IF shape.vlen > 8 THEN [v |-> "some-any"]       \* a 128-bit integer on a fixed-point kind (not well formed): "an integer value" all the same - nothing is stated
  ELSE IF prod.cls # "num" THEN [v |-> "some-any"]
  ELSE IF off.neg
       THEN IF Num!Less(prod.limbs, off.limbs) THEN [v |-> "some-any"]                                \* sum negative
            ELSE LET r == Num!Sub(prod.limbs, off.limbs) IN
                 IF Num!Less(r, Num!TwoPow63) THEN [v |-> "some", limbs |-> r] ELSE [v |-> "some-any"]
       ELSE LET r == Num!Add(prod.limbs, off.limbs) IN
            IF Num!Less(r, Num!TwoPow63) THEN [v |-> "some", limbs |-> r] ELSE [v |-> "some-any"]
=============================================================================
