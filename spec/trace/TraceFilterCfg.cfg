SPECIFICATION Spec
INVARIANT Report
POSTCONDITION Accepted
CHECK_DEADLOCK FALSE
