----------------------------- MODULE TraceReader -----------------------------
(* Trace validation of the framed readers (C07, C08).  One line = one session *)
(* of the real DltMessageReader / DltStreamReader over a scripted source: the *)
(* interleaved log of source reads (t = "src": ret in bytes/intr/pend/eof, k  *)
(* bytes), deliveries (t = "out": k = slice length, ret = same/different      *)
(* content) and the terminal outcome (t = "end": ret in eos/err/panic).       *)
(*   verdict  (register bad)  : the property's relation - delivered lengths   *)
(*            = the stream cut at the declared lengths, content identical,    *)
(*            terminal outcome allowed; read_message = parsing each piece.    *)
(*   drift    (register drift): the log is not a behaviour of the Reader      *)
(*            machine (a source read the machine does not ask for, a delivery *)
(*            before the bytes were fed ...) - reported, not a violation: the *)
(*            property does not prescribe how the reader reads.               *)
EXTENDS Reader, TLC, Json, IOUtils
Rec == ndJsonDeserialize(IOEnv.TRACE)
VARIABLES l, bad, drift
Outs(log) == LET o == SelectSeq(log, LAMBDA x : x.t = "out") IN [i \in 1..Len(o) |-> o[i].k]
EndOf(log) == LET e == SelectSeq(log, LAMBDA x : x.t = "end") IN IF e = <<>> THEN "none" ELSE e[1].ret
\* ---- the property's relation for one session
SessionProp(stream, sh, log) ==
  /\ Outs(log) = Cut(stream, sh)                                            \* exactly the pieces given by the declared lengths, in order, all of them
  /\ \A i \in 1..Len(log) : log[i].t = "out" => log[i].ret = "same"          \* each slice is the bytes of the stream at its place
  /\ EndOf(log) \in AllowedEnd(stream, sh)                                   \* never a panic, never a message from a truncated tail
  /\ Len(SelectSeq(log, LAMBDA x : x.t = "end")) = 1 /\ log[Len(log)].t = "end"
\* read_message = parse of each delivered piece.  e.spe: the sequence sp ended because a delivered piece did not parse (then read_message
\* must end there too, with an error); otherwise sp ends with the ending of the slice session, and read_message - another call sequence
\* over the same bytes - may end in any way the statement allows for this stream (a truncated tail: end of stream or an error)
ReaderOk(e) == /\ SessionProp(e.stream, e.sh, e.log)
               /\ IF e.spe THEN e.pm = e.sp
                  ELSE LET n == Len(e.sp) IN /\ Len(e.pm) = n /\ n >= 1 /\ SubSeq(e.pm, 1, n - 1) = SubSeq(e.sp, 1, n - 1)
                                             /\ e.pm[n].v \in AllowedEnd(e.stream, e.sh)
               /\ \A i \in 1..Len(e.pm) : e.pm[i].v # "panic"               \* no byte stream makes read_message panic (wherever the panic arises)
OutRets(log) == LET o == SelectSeq(log, LAMBDA x : x.t = "out") IN [i \in 1..Len(o) |-> o[i].ret]
EndCls(log) == LET x == SelectSeq(log, LAMBDA y : y.t = "end") IN IF x = <<>> THEN "none" ELSE x[1].cls
PairOk(e) ==  \* C08: same messages, same kind of terminal outcome (end of stream, or an error of the same class), no panic
  /\ Outs(e.alog) = Outs(e.blog) /\ EndOf(e.alog) = EndOf(e.blog) /\ EndOf(e.alog) \in {"eos", "err"} /\ EndCls(e.alog) = EndCls(e.blog)
  /\ OutRets(e.alog) = OutRets(e.blog)          \* slice for slice the same relation to the stream's bytes (that they ARE the stream's bytes is C07)
  /\ e.am = e.bm
\* growth beyond the listed properties: a caller that goes on after errors reaches the end of the stream (named deviation: the readers
\* continue wherever the source stands; the property C07 says nothing about calls after an error)
ContOk(e) == e.res.v = "ok" /\ e.res.ended /\ e.calls <= e.n + 8
Matches(e) == CASE e.op = "reader" -> ReaderOk(e) [] e.op = "pair" -> PairOk(e) [] e.op = "cont" -> ContOk(e) [] OTHER -> FALSE
\* ---- conformance of the log to the machine (normalised: HdrDone is taken as soon as it is enabled)
Eager(stream, sh, s) == IF HdrEnabled(s, sh) THEN HdrDone(stream, s, sh) ELSE s
MachineStep(stream, sh, acc, x) ==     \* acc = [s, ok]
  LET s == acc.s IN
  CASE x.t = "src" /\ x.ret = "bytes" -> [s |-> Eager(stream, sh, Fill(s, x.k)), ok |-> acc.ok /\ Wants(s, sh) /\ x.k >= 1 /\ x.k <= x.req /\ s.fed + x.k <= Len(stream)]
    [] x.t = "src" /\ x.ret \in {"intr", "pend"} -> [s |-> s, ok |-> acc.ok /\ Wants(s, sh)]
    [] x.t = "src" /\ x.ret = "eof" -> LET s1 == SrcEof(s) IN [s |-> IF EndEnabled(s1, sh) THEN End(s1) ELSE s1, ok |-> acc.ok /\ Wants(s, sh) /\ s.fed = Len(stream)]
    [] x.t = "out" -> [s |-> Eager(stream, sh, BodyDone(s)), ok |-> acc.ok /\ BodyEnabled(s) /\ x.k = s.need]
    [] x.t = "end" -> [s |-> s, ok |-> acc.ok /\ s.term = x.ret /\ ~BodyEnabled(s)]
    [] OTHER -> [s |-> s, ok |-> FALSE]
Conforms(stream, sh, log) == LET step(acc, x) == MachineStep(stream, sh, acc, x) IN FoldLeft(step, [s |-> Init0, ok |-> TRUE], log).ok
Drifts(e) == CASE e.op = "cont" -> FALSE
               [] e.op = "reader" -> ~Conforms(e.stream, e.sh, e.log)
               [] e.op = "pair" -> ~(Conforms(e.stream, e.sh, e.alog) /\ Conforms(e.stream, e.sh, e.blog))
               [] OTHER -> FALSE
Init == l = 1 /\ bad = <<>> /\ drift = 0
Next == /\ l <= Len(Rec) /\ l' = l + 1
        /\ bad' = IF Matches(Rec[l]) THEN bad ELSE Append(bad, l)
        /\ drift' = IF Drifts(Rec[l]) THEN drift + 1 ELSE drift
Spec == Init /\ [][Next]_<<l, bad, drift>>
ModelSays(e) == IF e.op = "cont" THEN <<"ends", e.n>> ELSE IF e.op = "reader" THEN <<"cut", Cut(e.stream, e.sh), AllowedEnd(e.stream, e.sh)>> ELSE <<"pair", 0>>
Report == (l = Len(Rec) + 1) => /\ \A i \in 1..Len(bad) : PrintT(<<"MISMATCH", bad[i], Rec[bad[i]].op, ModelSays(Rec[bad[i]])>>)
                                /\ PrintT(<<"DRIFT", drift>>)
                                /\ PrintT(<<"SUMMARY", Len(Rec), Len(bad)>>)
Accepted == TLCGet("stats").diameter - 1 = Len(Rec)
=============================================================================
