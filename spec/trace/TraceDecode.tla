---------------------------- MODULE TraceDecode ----------------------------
(* Trace validation of non-verbose decoding end to end (spec/NvDecode.tla):  *)
(* one line = one set of FIBEX files (as token lists) and several messages   *)
(* decoded against what gather_fibex_data returned for the printed files.    *)
EXTENDS NvDecode, IOUtils
Rec == ndJsonDeserialize(IOEnv.TRACE)
VARIABLES l, bad
OneOk(meta, m) == LET d == Decode(meta, m.buf, m.sh)  r == m.res IN
                  CASE d.v = "any" -> r.v \in {"ok", "err"}
                    [] d.v = "ok"  -> r.v = "ok" /\ r.args = d.args
                    [] OTHER       -> r.v = d.v
Matches(e) == ~e.panic /\ LET meta == Outcome(e.files) IN \A i \in 1..Len(e.msgs) : OneOk(meta, e.msgs[i])
ModelSays(e) == LET meta == Outcome(e.files)
                    wrong == {i \in 1..Len(e.msgs) : ~OneOk(meta, e.msgs[i])} IN
                IF wrong = {} THEN <<"panic", 0>> ELSE LET i == CHOOSE k \in wrong : TRUE IN <<Decode(meta, e.msgs[i].buf, e.msgs[i].sh).v, i>>
TInit == l = 1 /\ bad = <<>>
TNext == /\ l <= Len(Rec) /\ l' = l + 1
         /\ bad' = IF Matches(Rec[l]) THEN bad ELSE Append(bad, l)
TSpec == TInit /\ [][TNext]_<<l, bad>>
Report == (l = Len(Rec) + 1) => /\ \A i \in 1..Len(bad) : PrintT(<<"MISMATCH", bad[i], Rec[bad[i]].op, ModelSays(Rec[bad[i]])>>)
                                /\ PrintT(<<"SUMMARY", Len(Rec), Len(bad)>>)
Accepted == TLCGet("stats").diameter - 1 = Len(Rec)
=============================================================================
