SPECIFICATION TSpec
CONSTANTS EofRefuses = TRUE  Tier = "quick"
INVARIANT Report
POSTCONDITION Accepted
CHECK_DEADLOCK FALSE
