----------------------------- MODULE TraceBuild -----------------------------
(* Trace validation of the value-level API:                                  *)
(*   build  C15  Message::new -> byte_len / as_bytes -> add_storage_header   *)
(*               -> as_bytes -> dlt_message                                  *)
(*   layout C02  Message::new -> as_bytes = reference encoding                *)
(*   arg    C15  Argument::len / as_bytes (both orders) / valid              *)
(*   from_ms, from_us  C17                                                   *)
(*   real   C18  Argument::to_real_value                                     *)
EXTENDS DltBuild, TLC, Json, IOUtils
Rec == ndJsonDeserialize(IOEnv.TRACE)
VARIABLES l, bad

\* ---- C15: one build session.  e.conf, e.ts = [secs, us]; e.res = [v, m, blen, bytes, m2, bytes2, parse]
BuildOk(e) ==
  LET conf == e.conf  r == e.res  want0 == NewMessage(conf, None)  want == NewMessage(conf, e.sh0) IN      \* e.sh0: storage header given to Message::new
  ConfFits(conf) =>
    /\ r.v = "ok"
    /\ IF WellFormed(want0)
       THEN [r.m EXCEPT !.h.plen = 0] = [want EXCEPT !.h.plen = 0]        \* fields, VERB / NOAR as the payload kind requires (the payload length: next line)
       ELSE /\ r.m.h.ueh = want.h.ueh /\ r.m.p = want.p                  \* a configuration that describes no well-formed message (version > 7, over-long ids ...):
            /\ (want.x # None => r.m.x # None /\ r.m.x[1].verb = want.x[1].verb /\ r.m.x[1].noar = want.x[1].noar)   \* only what the statement names
    /\ r.m.h.plen = Len(r.bytes) - HdrsLen(r.bytes[1])                   \* recorded payload length = serialised payload
    /\ r.blen = Len(r.bytes)                                             \* byte length = serialisation without storage header
    /\ TRUE =>                                                           \* (also for a message constructed with a storage header: the one it has afterwards carries
        /\ r.m2 = AddStorageHeader(r.m, e.ts.secs, e.ts.us)               \*  the given time and the header ECU id - seeded change C15_E)
        /\ Len(r.bytes2) = 16 + Len(r.bytes) /\ SubSeq(r.bytes2, 17, Len(r.bytes2)) = r.bytes
        /\ IF WellFormed(want0)                                          \* 16 bytes carrying the given time and the ECU id: they parse back
           THEN r.parse.v = "msg" /\ r.parse.m = r.m2 /\ r.parse.consumed = Len(r.bytes2)    \* ... to an equal message (the byte layout itself is C02's)
           ELSE SubSeq(r.bytes2, 1, 16) = EncStorage(r.m2.sh[1])
\* ---- C02 (writer half through the public constructor): the bytes written for Message::new(conf) are the layout of the message
\* the configuration describes (length field = real length, flags as the payload kind requires)
LayoutOk(e) == LET want == NewMessage(e.conf, None) IN
               (ConfFits(e.conf) /\ WellFormed(want)) => (e.res.v = "ok" /\ e.res.bytes = EncMessage(want))
\* ---- C01 through the public constructor: the message Message::new builds from a configuration that describes a well-formed message
\* serialises and parses back to itself, whole and with nothing left
RoundNewOk(e) == LET want == NewMessage(e.conf, None)  r == e.res IN
                 (ConfFits(e.conf) /\ WellFormed(want)) => (r.v = "ok" /\ r.parse.v = "msg" /\ r.parse.m = r.m /\ r.parse.consumed = Len(r.bytes) /\ r.parse.rest = <<>>)
\* ---- extras: add_storage_header(None) stamps the current time (within the clock readings taken around the call, one second of slack)
StampNowOk(e) == e.res.v = "ok" /\ e.res.secs_minus_before >= 0 - 1 /\ e.res.after_minus_secs >= 0 - 1 /\ e.res.us < 1000000
\* ---- C15: one argument.  e.a; e.res = [v, len, be, le, valid]
ArgOk(e) ==
  LET a == e.a  r == e.res IN
  /\ r.v = "ok"                                                             \* the validity check itself never panics
  /\ ArgWellFormed(a) => (r.m = "ok" /\ r.len = r.be /\ r.len = r.le)         \* (measuring an argument that is not well formed: nothing is stated)
  /\ ~ArgValid(a) => ~r.valid
\* ---- C17
TsOk(e) ==
  LET want == IF e.op = "from_ms" THEN FromMs(e.limbs) ELSE FromUs(e.limbs) IN
  FitsU32(want.secs) => /\ e.res.v = "ok"
                        /\ Num!Eq(e.res.secs, want.secs) /\ Num!Eq(e.res.us, want.us)
                        /\ Num!Less(e.res.us, <<1, 0, 0>>)
\* ---- C18
RealOk(e) ==
  LET d == ToRealValue(e.shape, e.prod, e.off)  r == e.res IN
  CASE d.v = "none" -> r.v = "none"
    [] d.v = "some" -> r.v = "some" /\ Num!Eq(r.limbs, d.limbs)
    [] d.v = "some-any" -> r.v \in {"some", "none"}      \* outside the stated domain: any value or nothing, only no panic
Matches(e) == CASE e.op = "build" -> BuildOk(e)
                [] e.op = "layout" -> LayoutOk(e)
                [] e.op = "roundnew" -> RoundNewOk(e)
                [] e.op = "stampnow" -> StampNowOk(e)
                [] e.op = "arg" -> ArgOk(e)
                [] e.op \in {"from_ms", "from_us"} -> TsOk(e)
                [] e.op = "real" -> RealOk(e)
                [] OTHER -> FALSE
Init == l = 1 /\ bad = <<>>
Next == l <= Len(Rec) /\ l' = l + 1 /\ bad' = IF Matches(Rec[l]) THEN bad ELSE Append(bad, l)
Spec == Init /\ [][Next]_<<l, bad>>
ModelSays(e) == CASE e.op = "real" -> LET d == ToRealValue(e.shape, e.prod, e.off) IN <<d.v, IF d.v = "some" THEN d.limbs ELSE <<>> >>
                  [] e.op \in {"from_ms", "from_us"} -> LET w == IF e.op = "from_ms" THEN FromMs(e.limbs) ELSE FromUs(e.limbs) IN <<"ts", w.secs, w.us>>
                  [] OTHER -> <<"-", 0>>
Report == (l = Len(Rec) + 1) => /\ \A i \in 1..Len(bad) : PrintT(<<"MISMATCH", bad[i], Rec[bad[i]].op, ModelSays(Rec[bad[i]])>>)
                                /\ PrintT(<<"SUMMARY", Len(Rec), Len(bad)>>)
Accepted == TLCGet("stats").diameter - 1 = Len(Rec)
=============================================================================
