----------------------------- MODULE TraceStats -----------------------------
(* Trace validation of the statistics scan (C10).  One line = one stream:    *)
(* the visits of a recording collector, the standard collector's result, the *)
(* summaries of up to three parts split at message boundaries, and the       *)
(* result of merging the parts in every order and grouping.                  *)
EXTENDS DltCodec, TLC, Json, IOUtils
F == INSTANCE DltFilter
S == INSTANCE Stats
R == INSTANCE Reader
Rec == ndJsonDeserialize(IOEnv.TRACE)
VARIABLES l, bad
\* a table as the code returns it (list of <<id, counts>>) against a model table (function id -> counts); order-free, no duplicate ids
TableIs(list, table) ==
  /\ Len(list) = Cardinality(DOMAIN table)
  /\ Cardinality({list[i][1] : i \in 1..Len(list)}) = Len(list)
  /\ \A i \in 1..Len(list) : list[i][1] \in DOMAIN table /\ table[list[i][1]] = list[i][2]
SummaryIs(j, m) == TableIs(j.app, m.app) /\ TableIs(j.ctx, m.ctx) /\ TableIs(j.ecu, m.ecu) /\ j.nonverbose = m.nonverbose
HeaderOfVisit(v) == [ecu |-> v.h.ecu, ext |-> IF v.x = None THEN None ELSE Some([mt |-> v.x[1].mt, ap |-> v.x[1].ap, ct |-> v.x[1].ct, verb |-> v.x[1].verb])]
RECURSIVE Starts(_, _)
Starts(lens, p) == IF lens = <<>> THEN <<>> ELSE <<p>> \o Starts(Tail(lens), p + Head(lens))
StatsOk(e) ==
  LET lens == R!Cut(e.stream, e.sh)  st == Starts(lens, 0)  r == e.res IN
  R!SumSeq(lens) = Len(e.stream) =>                          \* premise: a stream of complete messages (the property's quantifier)
    /\ r.v = "ok" /\ r.rc = "ok"
    /\ Len(r.visits) = Len(lens)                             \* every message visited exactly once ...
    /\ \A i \in 1..Len(lens) :                               \* ... in order, with its decoded headers
         LET piece == SubSeq(e.stream, st[i] + 1, st[i] + lens[i])  v == r.visits[i]
             IsIt(h, x) == h = v.h /\ x = v.x IN
         /\ ParseVerdictF(piece, e.sh, IsIt).v = "filtered"
         /\ v.level = (IF v.x # None /\ v.x[1].mt[1] = MSTP_LOG THEN Some(v.x[1].mt[2]) ELSE None)
         /\ v.verbose = (v.x # None /\ v.x[1].verb) /\ v.plen = v.h.plen
         /\ v.sh = (IF e.sh THEN Some([secs |-> Rev(Sub(piece, 5, 8)), us |-> Rev(Sub(piece, 9, 12)), ecu |-> ZField(piece, 13, 4)]) ELSE None)
    /\ LET hs == [i \in 1..Len(r.visits) |-> HeaderOfVisit(r.visits[i])]  want == S!Tally(hs) IN
         /\ Len(r.result) = 1 /\ SummaryIs(r.result[1], want)              \* the standard collector = the independent tally
         /\ S!Total(want.ecu) = Len(lens)                                  \* ECU totals add up to the number of messages
         /\ \A k \in 1..Len(r.merged) : SummaryIs(r.merged[k], want)       \* merging the parts, any order and grouping = the whole
         /\ Len(r.parts) = 3 /\ Len(r.merged) >= 1
\* ---- the same scan looked at for one thing only (the statistics scan is one more public entry point through which header-type
\* bytes and ids are decoded): C14 - the flags of the header handed to the visitor are those of the header-type byte, it re-encodes to
\* that byte; C19 - the ids handed to the visitor obey the id rule
VisitOk(e, Same(_, _, _)) ==
  LET lens == R!Cut(e.stream, e.sh)  st == Starts(lens, 0)  r == e.res IN
  (R!SumSeq(lens) = Len(e.stream) /\ r.v = "ok" /\ Len(r.visits) = Len(lens)) =>
     \A i \in 1..Len(lens) :
         LET piece == SubSeq(e.stream, st[i] + 1, st[i] + lens[i])  v == r.visits[i]
             Differs(h, x) == ~Same(v, h, x) IN
         ParseVerdictF(piece, e.sh, Differs).v # "filtered"           \* "filtered" = the headers decode and differ from what the visitor was handed
FlagsSame(v, h, x) == /\ (h.ecu = None) = (v.h.ecu = None) /\ (h.sid = None) = (v.h.sid = None) /\ (h.tms = None) = (v.h.tms = None)
                      /\ h.ueh = v.h.ueh /\ h.be = v.h.be /\ h.ver = v.h.ver /\ (x = None) = (v.x = None)
IdsSame(v, h, x) == /\ h.ecu = v.h.ecu /\ (x = None) = (v.x = None) /\ (x # None => x[1].ap = v.x[1].ap /\ x[1].ct = v.x[1].ct)
Visit14Ok(e) == VisitOk(e, FlagsSame)
Visit19Ok(e) == /\ VisitOk(e, IdsSame)
                /\ LET lens == R!Cut(e.stream, e.sh)  st == Starts(lens, 0)  r == e.res IN
                   (e.sh /\ R!SumSeq(lens) = Len(e.stream) /\ r.v = "ok" /\ Len(r.visits) = Len(lens)) =>
                      \A i \in 1..Len(lens) : r.visits[i].sh # None /\ r.visits[i].sh[1].ecu = ZField(SubSeq(e.stream, st[i] + 1, st[i] + lens[i]), 13, 4)
\* ---- beyond the listed properties: reader -> parse -> filter -> statistics (./check extras).
\* For a stream of complete, well-formed messages: read_message with a filter yields, piece by piece, the filtered-out marker
\* exactly for the messages whose headers fail the configuration, then end of stream; kept + dropped = number of messages =
\* the ECU total of the statistics of the same stream.
PipelineOk(e) ==
  LET lens == R!Cut(e.stream, e.sh)  st == Starts(lens, 0)  r == e.res  cfg == e.flt[1]
      wf == R!SumSeq(lens) = Len(e.stream) /\ \A i \in 1..Len(lens) : LET d == ParseVerdict(SubSeq(e.stream, st[i] + 1, st[i] + lens[i]), e.sh) IN d.v = "msg" /\ WellFormed(d.m) IN
  wf => /\ r.v = "ok" /\ Len(r.pm) = Len(lens) + 1 /\ r.pm[Len(lens) + 1].v = "eos"
        /\ \A i \in 1..Len(lens) :
             LET d == ParseVerdict(SubSeq(e.stream, st[i] + 1, st[i] + lens[i]), e.sh) IN
             IF F!Dropped(cfg, d.m.h, d.m.x) THEN r.pm[i].v = "filtered" /\ r.pm[i].n = d.m.h.plen
                                            ELSE r.pm[i].v = "msg" /\ r.pm[i].h = d.m.h /\ r.pm[i].x = d.m.x
        /\ r.stats_total = Len(lens)
\* a stream of e.n log messages, all with the same application id, no ECU id, and pairwise distinct context ids (by construction
\* of the driver): one entry per context id, every table's total = the number of messages
ManyIdsOk(e) == LET r == e.res IN r.v = "ok" /\ r.ctx_entries = e.n /\ r.ctx_total = e.n /\ r.app_entries = 1 /\ r.app_total = e.n /\ r.ecu_total = e.n
Matches(e) == CASE e.op = "visit14" -> Visit14Ok(e) [] e.op = "visit19" -> Visit19Ok(e) [] e.op = "stats" -> StatsOk(e) [] e.op = "manyids" -> ManyIdsOk(e) [] e.op = "pipeline" -> PipelineOk(e) [] OTHER -> FALSE
Init == l = 1 /\ bad = <<>>
Next == l <= Len(Rec) /\ l' = l + 1 /\ bad' = IF Matches(Rec[l]) THEN bad ELSE Append(bad, l)
Spec == Init /\ [][Next]_<<l, bad>>
Report == (l = Len(Rec) + 1) => /\ \A i \in 1..Len(bad) : PrintT(<<"MISMATCH", bad[i], Rec[bad[i]].op, <<"tally", 0>> >>)
                                /\ PrintT(<<"SUMMARY", Len(Rec), Len(bad)>>)
Accepted == TLCGet("stats").diameter - 1 = Len(Rec)
=============================================================================
