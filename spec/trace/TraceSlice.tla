----------------------------- MODULE TraceSlice -----------------------------
(* Trace validation of the slice-level API (direction B).                    *)
(* One NDJSON line per public call of dlt-core; the specification decides,   *)
(* for every line, whether the logged result is a result the reference       *)
(* semantics (DltCodec, DltFilter) allows.  Non-blocking: a mismatch is put  *)
(* into the register `bad` and validation goes on.                            *)
EXTENDS SliceSession, Json, IOUtils
Rec == ndJsonDeserialize(IOEnv.TRACE)
VARIABLES l, bad

\* ---- the parse verdict with an optional filter
FilterOf(e) == e.flt
Verdict(e) == IF e.flt = None THEN ParseVerdict(e.buf, e.sh)
              ELSE LET F(hdr, ext) == Dropped(e.flt[1], hdr, ext) IN ParseVerdictF(e.buf, e.sh, F)
VerdictNoFilter(e) == ParseVerdict(e.buf, e.sh)
SameMsg(d, r) == r.v = "msg" /\ r.consumed = d.consumed /\ r.m = d.m
ParseOk(e) ==
  LET d == Verdict(e)  r == e.res IN
  CASE d.v = "msg"      -> SameMsg(d, r)
    [] d.v = "filtered" -> \/ r.v = "filtered" /\ r.consumed = d.consumed /\ r.n = d.n
                           \/ r.v = "rej" /\ VerdictNoFilter(e).v = "rej"      \* latitude: malformed payload of a dropped message
    [] d.v = "inc"      -> r.v = "inc"
    [] d.v = "rej"      -> r.v = "rej"
\* hint of an incomplete report: at least 1 (NonZero by type) and never more than what is missing (C05, C19)
HintOk(r, missing) == r.hint = None \/ (r.hint[1] >= 1 /\ r.hint[1] <= missing)

\* ---- C05: all cuts of one complete message.  e.full parses (by the reference) to a message that
\*      consumes all of it; e.cuts[k+1] is the code's parse result on the first k bytes, k = 0..Len-1;
\*      e.ccuts[k+1] likewise for dlt_consume_msg (only when sh).
PrefixesOk(e) ==
  LET n == Len(e.full)  d == ParseVerdict(e.full, e.sh) IN
  /\ d.v = "msg" /\ d.consumed = n                         \* the premise (otherwise the harness is wrong)
  /\ Len(e.cuts) = n
  /\ \A k \in 0..(n - 1) :
       /\ ParseVerdict(Sub(e.full, 1, k), e.sh).v = "inc"          \* model theorem, re-evaluated on this instance
       /\ e.cuts[k + 1].v = "inc" /\ HintOk(e.cuts[k + 1], n - k)
  /\ e.sh => /\ Len(e.ccuts) = n
             /\ e.ccuts[1].v = "none"
             /\ \A k \in 1..(n - 1) : e.ccuts[k + 1].v = "inc" /\ HintOk(e.ccuts[k + 1], n - k)

ConsumeOk(e) == LET d == ConsumeVerdict(e.buf)  r == e.res IN
                r.v = d.v /\ (d.v = "skipped" => r.consumed = d.consumed)
SkipOk(e) == LET d == SkipStorage(e.buf)  r == e.res IN r.v = d.v /\ (d.v = "skipped" => r.consumed = d.consumed)
ForwardOk(e) == LET d == Forward(e.buf)  r == e.res IN r.v = d.v /\ (d.v = "found" => r.dropped = d.dropped)
ZStrOk(e) == LET d == ZStr(e.buf, e.size)  r == e.res IN
             /\ r.v = d.v
             /\ d.v = "ok" => (r.val = d.val /\ r.consumed = d.consumed)
             /\ d.v = "inc" => HintOk(r, d.miss)
ConstructOk(e) == LET d == ConstructArgs(e.types, e.data, e.be)  r == e.res IN
                  CASE d.v = "any" -> r.v \in {"ok", "err"}
                    [] d.v = "err" -> r.v = "err"
                    [] d.v = "ok"  -> r.v = "ok" /\ r.args = d.args
\* ---- re-serialisation and measuring of a message value (C03, C15, C16)
ArgsOf(m) == IF m.p[1] = "v" THEN m.p[2] ELSE <<>>
ReserOk(e) ==
  LET m == e.m  r == e.res  as == ArgsOf(m) IN
  /\ r.v = "ok"
  /\ r.bytes = EncMessage(m)
  /\ r.blen = HdrsLen(r.bytes[IF IsSome(m.sh) THEN 17 ELSE 1]) + m.h.plen
  /\ Len(r.alen) = Len(as) /\ Len(r.avalid) = Len(as)
  /\ \A i \in 1..Len(as) :
       /\ r.avalid[i] = ArgValid(as[i])
       /\ r.abe[i] = Len(EncArg(as[i], TRUE)) /\ r.ale[i] = Len(EncArg(as[i], FALSE))
       /\ ArgWellFormed(as[i]) => r.alen[i] = ArgLen(as[i])
  /\ e.parsed => \A i \in 1..Len(as) : r.avalid[i]          \* arguments of a parser result pass the validity check
\* ---- C16: m was returned by the parser; b2 = as_bytes(m); res2 = parse(b2); b3 = as_bytes(res2.m)
StableOk(e) ==
  /\ e.b2 = EncMessage(e.m)
  /\ (Len(e.b2) = DeclaredLen(e.b2, e.sh)) =>
        /\ e.res2.v = "msg" /\ e.res2.m = e.m /\ e.res2.consumed = Len(e.b2)
        /\ e.b3 = e.b2
\* ---- C01: serialise-then-parse of a well-formed message with a trailing byte string
RoundOk(e) ==
  /\ WellFormed(e.m)
  /\ e.bytes = EncMessage(e.m)
  /\ \A i \in 1..Len(e.sfx) :
       LET r == e.res[i] IN r.v = "msg" /\ r.m = e.m /\ r.consumed = Len(e.bytes) /\ r.rest = e.sfx[i]

\* ---- C04 / C06: one session = the list of calls the driver made on the successive remainders
VerdictMatches(d, r) ==
  CASE d.v = "msg"      -> r.v = "msg" /\ r.consumed = d.consumed /\ r.plen = d.m.h.plen
    [] d.v = "filtered" -> r.v = "filtered" /\ r.consumed = d.consumed /\ r.n = d.n
    [] d.v = "skipped"  -> r.v = "skipped" /\ r.consumed = d.consumed
    [] OTHER            -> r.v = d.v
SessionOk(e) ==
  LET step(acc, s) ==
        IF ~acc.live THEN [acc EXCEPT !.ok = FALSE]                 \* a call after the session ended
        ELSE LET st == IF e.api = "parse" THEN StepParse(e.buf, acc.pos, e.sh, e.flt) ELSE StepConsume(e.buf, acc.pos)
                 latitude == e.api = "parse" /\ st.d.v = "filtered" /\ s.res.v = "rej"
                               /\ ParseAt(e.buf, acc.pos, e.sh, None).v = "rej" IN
             IF latitude THEN [acc EXCEPT !.live = FALSE]
             ELSE [pos |-> st.pos, live |-> st.live,
                   ok |-> acc.ok /\ s.pos = acc.pos /\ VerdictMatches(st.d, s.res)
                          /\ (st.live => st.pos > acc.pos /\ st.pos <= Len(e.buf))]      \* Progress
      fin == FoldLeft(step, [pos |-> 0, live |-> TRUE, ok |-> TRUE], e.steps)
  IN fin.ok /\ (~fin.live \/ Len(e.steps) = 64)

Matches(e) == CASE e.op = "parse"     -> ParseOk(e)
                [] e.op = "enc"       -> e.bytes = EncMessage(e.m)
                [] e.op = "round"     -> RoundOk(e)
                [] e.op = "prefixes"  -> PrefixesOk(e)
                [] e.op = "consume"   -> ConsumeOk(e)
                [] e.op = "skip"      -> SkipOk(e)
                [] e.op = "forward"   -> ForwardOk(e)
                [] e.op = "zstr"      -> ZStrOk(e)
                [] e.op = "construct" -> ConstructOk(e)
                [] e.op = "reser"     -> ReserOk(e)
                [] e.op = "stable"    -> StableOk(e)
                [] e.op = "session"   -> SessionOk(e)
                [] OTHER              -> FALSE
Init == l = 1 /\ bad = <<>>
Next == l <= Len(Rec) /\ l' = l + 1 /\ bad' = IF Matches(Rec[l]) THEN bad ELSE Append(bad, l)
Spec == Init /\ [][Next]_<<l, bad>>
\* what the model says for a mismatching line (kept short: class and numbers only)
ModelSays(e) ==
  CASE e.op = "parse" -> LET d == Verdict(e) IN <<d.v, IF d.v \in {"msg", "filtered"} THEN d.consumed ELSE 0>>
    [] e.op = "consume" -> LET d == ConsumeVerdict(e.buf) IN <<d.v, IF d.v = "skipped" THEN d.consumed ELSE 0>>
    [] e.op = "skip" -> <<SkipStorage(e.buf).v, 0>>
    [] e.op = "forward" -> LET d == Forward(e.buf) IN <<d.v, IF d.v = "found" THEN d.dropped ELSE 0>>
    [] e.op = "zstr" -> <<ZStr(e.buf, e.size).v, 0>>
    [] e.op = "construct" -> <<ConstructArgs(e.types, e.data, e.be).v, 0>>
    [] OTHER -> <<"-", 0>>
Report == (l = Len(Rec) + 1) => /\ \A i \in 1..Len(bad) : PrintT(<<"MISMATCH", bad[i], Rec[bad[i]].op, ModelSays(Rec[bad[i]])>>)
                                /\ PrintT(<<"SUMMARY", Len(Rec), Len(bad)>>)
Accepted == TLCGet("stats").diameter - 1 = Len(Rec)
=============================================================================
