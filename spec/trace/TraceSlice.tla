----------------------------- MODULE TraceSlice -----------------------------
(* Trace validation of the slice-level API (direction B).                    *)
(* One NDJSON line per public call (or per small group of calls) of          *)
(* dlt-core; the specification decides for every line whether the logged     *)
(* results stand in the relation the property states.  Each op is ONE        *)
(* property's relation and nothing more (a check must not fire on code that  *)
(* keeps its property):                                                      *)
(*   round      C01  serialise-then-parse with trailing bytes                *)
(*   parse, enc C02  verdict / bytes = the reference codec                   *)
(*   nopanic, reser3  C03  outcome alphabet has no panic; results measurable *)
(*   frame, session   C04  consumption = the frame the length field declares *)
(*   prefixes   C05  every proper prefix is incomplete, hint bound           *)
(*   forward, junkparse, recover  C06  storage-header resync                 *)
(*   filter     C09  filtered parse vs unfiltered parse                      *)
(*   construct  C13  non-verbose argument construction                       *)
(*   reser      C15  computed lengths = serialised lengths                   *)
(*   stable     C16  re-serialisation of parser results is stable            *)
(*   zstr, ids  C19  fixed-size NUL-terminated fields                        *)
(* Non-blocking: a mismatch goes into the register `bad`, validation goes on.*)
EXTENDS SliceSession, Json, IOUtils
Rec == ndJsonDeserialize(IOEnv.TRACE)
VARIABLES l, bad, hits      \* hits: number of lines whose relation had a true premise (vacuity guard)

\* ---------------------------------------------------------------- C02: full agreement with the reference
Verdict(e) == IF e.flt = None THEN ParseVerdict(e.buf, e.sh)
              ELSE LET F(hdr, ext) == Dropped(e.flt[1], hdr, ext) IN ParseVerdictF(e.buf, e.sh, F)
ParseOk(e) ==
  LET d == Verdict(e)  r == e.res IN
  CASE d.v = "msg"      -> r.v = "msg" /\ r.consumed = d.consumed /\ r.m = d.m
    [] d.v = "filtered" -> \/ r.v = "filtered" /\ r.consumed = d.consumed /\ r.n = d.n
                           \/ r.v = "rej" /\ ParseVerdict(e.buf, e.sh).v = "rej"      \* latitude: malformed payload of a dropped message
    [] d.v = "inc"      -> r.v = "inc"
    [] d.v = "rej"      -> r.v = "rej"
\* hint of an incomplete report: at least 1 and never more than what is missing (C05, C19)
HintOk(r, missing) == r.hint = None \/ (r.hint[1] >= 1 /\ r.hint[1] <= missing)

\* ---------------------------------------------------------------- C01
RoundOk(e) ==
  /\ WellFormedFor(e.m, e.bytes)                         \* premise: the driver only builds well-formed values (payload length = the one its bytes have)
  /\ \A i \in 1..Len(e.sfx) :
       LET r == e.res[i] IN r.v = "msg" /\ r.m = e.m /\ r.consumed = Len(e.bytes) /\ r.rest = e.sfx[i]

\* ---------------------------------------------------------------- C03
NoPanic(e) == e.res.v # "panic"
Reser3Ok(e) == e.res.v = "ok" /\ \A i \in 1..Len(e.res.avalid) : e.res.avalid[i]

\* ---------------------------------------------------------------- C04
FrameEventOk(e) == FrameOk(e.buf, e.sh, e.api, e.res)
SessionOk(e) ==
  LET n == Len(e.steps) IN
  /\ n >= 1 /\ e.steps[1].pos = 0
  /\ \A i \in 1..n : LET s == e.steps[i] IN
       /\ FrameOk(Rest(e.buf, s.pos), e.sh, e.api, s.res)
       /\ i < n => (OkClass(s.res.v) /\ e.steps[i + 1].pos = s.pos + s.res.consumed)    \* the driver continues exactly at the remainder
  /\ (~OkClass(e.steps[n].res.v)) \/ n = 64                                              \* repeated parsing terminates

\* ---------------------------------------------------------------- C05: all cuts of one complete message
PrefixesOk(e) ==      \* e.ks: the cut positions tried (all of 0..n-1 for ordinary messages, a selection for maximal ones)
  LET n == Len(e.full)  d == ParseVerdict(e.full, e.sh) IN
  /\ IF "m" \in DOMAIN e THEN WellFormedFor(e.m, e.full)    \* premise (otherwise the driver is wrong): the bytes of a well-formed message value,
     ELSE d.v = "msg" /\ d.consumed = n /\ WellFormed(d.m)   \* or (hand-made maximal frames) bytes that are a well-formed message
  /\ Len(e.cuts) = Len(e.ks)
  /\ \A i \in 1..Len(e.ks) : e.ks[i] \in 0..(n - 1) /\ e.cuts[i].v = "inc" /\ HintOk(e.cuts[i], n - e.ks[i])
  /\ e.sh => /\ Len(e.ccuts) = Len(e.ks)
             /\ \A i \in 1..Len(e.ks) : IF e.ks[i] = 0 THEN e.ccuts[i].v = "none" ELSE e.ccuts[i].v = "inc" /\ HintOk(e.ccuts[i], n - e.ks[i])
  /\ e.flt # None => /\ Len(e.fcuts) = Len(e.ks)                    \* a filter (whether or not it drops the message) does not change that
                      /\ \A i \in 1..Len(e.ks) : e.fcuts[i].v = "inc" /\ HintOk(e.fcuts[i], n - e.ks[i])

\* ---------------------------------------------------------------- C06
ForwardOk(e) == LET d == Forward(e.buf)  r == e.res IN r.v = d.v /\ (d.v = "found" => r.dropped = d.dropped)
PatternFreeBefore(junk, msg) == FindPattern(junk \o msg) = Len(junk) + 1
\* whatever a parse with storage header returns, it is the message at the FIRST occurrence of the pattern (exactly the bytes in front
\* of it are skipped); this does not depend on what the message is or whether the decoder would accept it elsewhere
FirstOcc(buf, r) == r.v \in {"msg", "filtered"} => r.consumed = FrameOf(buf, TRUE, "parse").end
JunkParseOk(e) ==     \* a = parse(junk ++ msg ++ sfx), b = parse(msg ++ sfx), both with storage header and the same (optional) filter
  /\ FirstOcc(e.junk \o e.msg \o e.sfx, e.a) /\ FirstOcc(e.msg \o e.sfx, e.b)
  /\ (PatternFreeBefore(e.junk, e.msg) /\ e.b.v \in {"msg", "filtered"}) =>
     /\ e.a.v = e.b.v /\ e.a.consumed = e.b.consumed + Len(e.junk)          \* same remainder
     /\ e.b.v = "msg" => e.a.m = e.b.m
     /\ e.b.v = "filtered" => e.a.n = e.b.n
\* very long junk, given as `n` copies of one byte that is not part of the pattern
Num == INSTANCE Numerals
JunkRepOk(e) == /\ (e.fill \notin {68, 76, 84, 1} /\ e.b.v = "msg") => (e.a.v = "msg" /\ e.a.m = e.b.m /\ e.a.consumed = e.b.consumed + e.n)
                /\ (e.fill \notin {68, 76, 84, 1} /\ FindPattern(e.msg) = 1 /\ e.a.v \in {"msg", "filtered"})
                      => e.a.consumed = e.n + FrameOf(e.msg \o <<7>>, TRUE, "parse").end            \* the frame at the first occurrence
ForwardRepOk(e) == e.fill \notin {68, 76, 84, 1} => (e.res.v = "found" /\ Num!Eq(e.res.dropped, e.n) /\ e.res.rest_len = 4)
RECURSIVE StreamOf(_, _)
StreamOf(parts, i) == IF i > Len(parts) THEN <<>> ELSE parts[i].junk \o parts[i].msg \o StreamOf(parts, i + 1)
RecoverOk(e) ==       \* parts: [junk, msg, alone = parse(msg)]; steps: the session over junk1 msg1 junk2 msg2 ... tail
  LET n == Len(e.parts)
      premise == /\ \A i \in 1..n : PatternFreeBefore(e.parts[i].junk, e.parts[i].msg) /\ e.parts[i].alone.v = "msg"
                                    /\ e.parts[i].alone.consumed = Len(e.parts[i].msg)
                 /\ FindPattern(e.tail) = 0 IN
  /\ \A i \in 1..Len(e.steps) : FirstOcc(Rest(StreamOf(e.parts, 1) \o e.tail, e.steps[i].pos), e.steps[i].res)
  /\ premise =>
             /\ Len(e.steps) = n + 1
             /\ \A i \in 1..n : e.steps[i].res.v = "msg" /\ e.steps[i].res.m = e.parts[i].alone.m
                                /\ e.steps[i].res.consumed = Len(e.parts[i].junk) + Len(e.parts[i].msg)
             /\ e.steps[n + 1].res.v \notin {"msg", "filtered"}

\* ---------------------------------------------------------------- C09: res = parse with filter, res0 = parse without
FilterOk(e) ==
  LET r == e.res  r0 == e.res0  cfg == e.flt[1] IN
  CASE r0.v = "msg" /\ ~WellFormed(r0.m) -> TRUE          \* the property quantifies over well-formed messages
    [] r0.v = "msg" -> IF Dropped(cfg, r0.m.h, r0.m.x)
                       THEN r.v = "filtered" /\ r.n = r0.m.h.plen /\ r.consumed = r0.consumed
                       ELSE r.v = "msg" /\ r.m = r0.m /\ r.consumed = r0.consumed
    [] OTHER -> TRUE                                       \* incomplete / rejected input: outside the property's quantifier

\* ---------------------------------------------------------------- C13
\* "each carrying its type and the value decoded from the next field": the type description and the value.  Whether the value of a string
\* field keeps the NUL terminator is read literally (the field's bytes); name, unit and fixed-point data are not mentioned at all
CutNul(f) == IF Len(f) > 0 /\ f[Len(f)] = 0 THEN SubSeq(f, 1, Len(f) - 1) ELSE f
SigArgSame(a, b) == /\ a.kind = b.kind /\ a.w = b.w /\ a.cod = b.cod /\ a.vari = b.vari /\ a.trai = b.trai
                    /\ a.val[1] = b.val[1]
                    /\ a.val[2] = b.val[2]       \* the field's bytes, a NUL terminator included (trimming it was proposed as latitude by the audit and
                                                  \* withdrawn: it is seeded change C13_G, whose author read "the value decoded from the field" as the field)
ConstructOk(e) == LET d == ConstructArgs(e.types, e.data, e.be)  r == e.res IN
                  CASE d.v = "any" -> r.v \in {"ok", "err"}
                    [] d.v = "err" -> r.v = "err"
                    [] d.v = "ok"  -> r.v = "ok" /\ Len(r.args) = Len(d.args) /\ \A i \in 1..Len(d.args) : SigArgSame(r.args[i], d.args[i])

\* ---------------------------------------------------------------- C15 (arguments of a message value)
ArgsOf(m) == IF m.p[1] = "v" THEN m.p[2] ELSE <<>>
ReserOk(e) ==
  LET m == e.m  r == e.res  as == ArgsOf(m) IN
  /\ r.v = "ok"
  /\ Len(r.alen) = Len(as) /\ Len(r.avalid) = Len(as)
  /\ \A i \in 1..Len(as) :
       /\ ~ArgValid(as[i]) => ~r.avalid[i]                         \* bool / float kinds carrying another value kind fail
       /\ ArgWellFormed(as[i]) => (r.alen[i] = r.abe[i] /\ r.alen[i] = r.ale[i])

\* ---------------------------------------------------------------- C16: m was returned by the parser; b2 = as_bytes(m); res2 = parse(b2); b3 = as_bytes(res2.m)
StableOk(e) ==
  (Len(e.b2) = DeclaredLen(e.b2, e.sh)) =>
        /\ e.res2.v = "msg" /\ e.res2.m = e.m /\ e.res2.consumed = Len(e.b2)
        /\ e.b3 = e.b2

\* ---------------------------------------------------------------- C19
ZStrOk(e) == LET d == ZStr(e.buf, e.size)  r == e.res IN
             e.size <= 65535 =>                        \* the quantifier: all sizes 0..65535 (beyond: only C03's "no panic")
             /\ r.v = d.v
             /\ d.v = "ok" => (r.val = d.val /\ r.consumed = d.consumed)
             /\ d.v = "inc" => HintOk(r, d.miss)
\* e.ctrl: what the code returned for the same message with plain ids ("ECU", "APP", "CTX").  The rule is about the ids of a message:
\* if the code returns no message even for the control, its refusal of the variant is not a matter of the id rule
IdsOk(e) == LET d == ParseVerdict(e.buf, e.sh)  r == e.res IN
            (d.v = "msg" /\ ("ctrl" \in DOMAIN e => e.ctrl = "msg"))
                        => /\ r.v = "msg" /\ r.m.h.ecu = d.m.h.ecu
                           /\ (IsSome(d.m.x) => IsSome(r.m.x) /\ r.m.x[1].ap = d.m.x[1].ap /\ r.m.x[1].ct = d.m.x[1].ct)
                           /\ (IsSome(d.m.sh) => IsSome(r.m.sh) /\ r.m.sh[1].ecu = d.m.sh[1].ecu)

\* a buffer that ends inside one of the 4-byte id fields of a message (storage-header ECU id, header ECU id, application id,
\* context id): fewer than 4 bytes of the field are available, so the parser must report incomplete
InsideIdField(buf, sh) ==
  LET k == IF sh THEN FindPattern(buf) ELSE 1
      o == IF sh THEN k + 15 ELSE 0
      avail == Len(buf) - o IN
  IF sh /\ k = 0 THEN FALSE
  ELSE IF sh /\ Len(buf) - (k - 1) \in 12..15 THEN TRUE
  ELSE IF avail < 4 THEN FALSE
  ELSE LET htyp == buf[o + 1]  std == StdLen(htyp) IN
       \/ Bit(htyp, 2) = 1 /\ avail \in 4..7
       \/ Bit(htyp, 0) = 1 /\ avail \in (std + 2)..(std + 9) /\ HdrsLen(htyp) <= U16(buf, o + 3, TRUE)
\* the number of bytes missing to complete the id field the buffer ends in (only meaningful when InsideIdField)
IdFieldShortfall(buf, sh) ==
  LET k == IF sh THEN FindPattern(buf) ELSE 1
      o == IF sh THEN k + 15 ELSE 0
      avail == Len(buf) - o IN
  IF sh /\ Len(buf) - (k - 1) \in 12..15 THEN 16 - (Len(buf) - (k - 1))
  ELSE LET htyp == buf[o + 1]  std == StdLen(htyp) IN
       IF Bit(htyp, 2) = 1 /\ avail \in 4..7 THEN 8 - avail
       ELSE IF avail <= std + 5 THEN std + 6 - avail ELSE std + 10 - avail
IdCutOk(e) == (InsideIdField(e.buf, e.sh) /\ ParseVerdict(e.buf, e.sh).v = "inc")
                 => (e.res.v = "inc" /\ HintOk(e.res, IdFieldShortfall(e.buf, e.sh)))      \* any size hint no larger than the shortfall
Matches(e) == CASE e.op = "parse"     -> ParseOk(e)
                [] e.op = "enc"       -> e.bytes = EncMessage(e.m)
                [] e.op = "round"     -> RoundOk(e)
                [] e.op = "nopanic"   -> NoPanic(e)
                [] e.op = "reser3"    -> Reser3Ok(e)
                [] e.op = "frame"     -> FrameEventOk(e)
                [] e.op = "session"   -> SessionOk(e)
                [] e.op = "prefixes"  -> PrefixesOk(e)
                [] e.op = "forward"   -> ForwardOk(e)
                [] e.op = "junkparse" -> JunkParseOk(e)
                [] e.op = "recover"   -> RecoverOk(e)
                [] e.op = "junkrep"   -> JunkRepOk(e)
                [] e.op = "forwardrep" -> ForwardRepOk(e)
                [] e.op = "filter"    -> FilterOk(e)
                [] e.op = "construct" -> ConstructOk(e)
                [] e.op = "reser"     -> ReserOk(e)
                [] e.op = "stable"    -> StableOk(e)
                [] e.op = "zstr"      -> ZStrOk(e)
                [] e.op = "ids"       -> IdsOk(e)
                [] e.op = "idcut"     -> IdCutOk(e)
                [] OTHER              -> FALSE
\* the premise under which a line's relation says anything at all (TRUE for relations without premise)
Premise(e) == CASE e.op = "round"     -> WellFormedFor(e.m, e.bytes)
                [] e.op = "prefixes"  -> IF "m" \in DOMAIN e THEN WellFormedFor(e.m, e.full) ELSE LET d == ParseVerdict(e.full, e.sh) IN d.v = "msg" /\ d.consumed = Len(e.full)
                [] e.op = "junkparse" -> PatternFreeBefore(e.junk, e.msg) /\ e.b.v \in {"msg", "filtered"}
                [] e.op = "recover"   -> \A i \in 1..Len(e.parts) : PatternFreeBefore(e.parts[i].junk, e.parts[i].msg) /\ e.parts[i].alone.v = "msg"
                [] e.op = "filter"    -> e.res0.v = "msg" /\ WellFormed(e.res0.m)
                [] e.op = "stable"    -> Len(e.b2) = DeclaredLen(e.b2, e.sh)
                [] e.op = "ids"       -> ParseVerdict(e.buf, e.sh).v = "msg" /\ ("ctrl" \in DOMAIN e => e.ctrl = "msg")
                [] e.op = "idcut"     -> InsideIdField(e.buf, e.sh) /\ ParseVerdict(e.buf, e.sh).v = "inc"
                [] e.op \in {"frame", "session"} -> (IF e.op = "frame" THEN e.res.v ELSE e.steps[1].res.v) \in {"msg", "filtered", "skipped"}
                [] OTHER -> TRUE
Init == l = 1 /\ bad = <<>> /\ hits = 0
Next == /\ l <= Len(Rec) /\ l' = l + 1
        /\ bad' = (IF Matches(Rec[l]) THEN bad ELSE Append(bad, l))
        /\ hits' = (IF Premise(Rec[l]) THEN hits + 1 ELSE hits)
Spec == Init /\ [][Next]_<<l, bad, hits>>
\* what the model says for a mismatching line (kept short: class and numbers only)
ModelSays(e) ==
  CASE e.op = "parse" -> LET d == Verdict(e) IN <<d.v, IF d.v \in {"msg", "filtered"} THEN d.consumed ELSE 0>>
    [] e.op = "forward" -> LET d == Forward(e.buf) IN <<d.v, IF d.v = "found" THEN d.dropped ELSE 0>>
    [] e.op = "zstr" -> <<ZStr(e.buf, e.size).v, 0>>
    [] e.op = "construct" -> <<ConstructArgs(e.types, e.data, e.be).v, 0>>
    [] e.op = "frame" -> <<"frame-end", FrameOf(e.buf, e.sh, e.api).end>>
    [] OTHER -> <<"-", 0>>
Report == (l = Len(Rec) + 1) => /\ \A i \in 1..Len(bad) : PrintT(<<"MISMATCH", bad[i], Rec[bad[i]].op, ModelSays(Rec[bad[i]])>>)
                                /\ PrintT(<<"PREMISE", hits>>)
                                /\ PrintT(<<"SUMMARY", Len(Rec), Len(bad)>>)
Accepted == TLCGet("stats").diameter - 1 = Len(Rec)
=============================================================================
