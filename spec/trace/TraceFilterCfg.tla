--------------------------- MODULE TraceFilterCfg ---------------------------
(* The filter configuration as a document (FilterJson), validated on the     *)
(* code's own results.  Beyond the listed properties (./check extras).       *)
(*   load     doc -> read_filter_options on a file holding a rendering of    *)
(*            the document (and serde_json::from_str on the same text)       *)
(*   written  cfg -> the document serde writes for it, and that text loaded  *)
(*   process  cfg -> ProcessedDltFilterConfig::from, by value and by ref     *)
EXTENDS FilterJson, TLC, Json, IOUtils
Rec == ndJsonDeserialize(IOEnv.TRACE)
VARIABLES l, bad
ResOf(o) == IF IsSome(o) THEN [v |-> "some", cfg |-> o[1]] ELSE [v |-> "none"]
LoadOk(e) == e.res = ResOf(Load(e.doc)) /\ e.same                 \* the file entry point and the text entry point agree
EntSet(d) == {d.ent[i] : i \in 1..Len(d.ent)}
WrittenOk(e) == /\ e.doc.form = "map" /\ Len(e.doc.ent) = 6 /\ EntSet(e.doc) = EntSet(Written(e.cfg))   \* what is written, up to the order of the fields
                /\ e.res = [v |-> "some", cfg |-> e.cfg]                                                 \* and it loads to the same configuration
                /\ Load(Written(e.cfg)) = Some(e.cfg)                                                     \* as the specification says it must
SetLike(got, want) == IF IsSome(want) THEN IsSome(got) /\ SetOfIds(got[1]) = want[1] /\ Len(got[1]) = Cardinality(want[1]) ELSE got = None
ProcessOk(e) == LET p == Processed(e.cfg)  r == e.res IN
                /\ r.v = "ok" /\ e.same                                                                   \* both conversions, same result
                /\ r.p.min = p.min /\ r.p.appc = p.appc /\ r.p.ctxc = p.ctxc
                /\ SetLike(r.p.app, p.app) /\ SetLike(r.p.ecu, p.ecu) /\ SetLike(r.p.ctx, p.ctx)
Matches(e) == CASE e.op = "load" -> LoadOk(e) [] e.op = "written" -> WrittenOk(e) [] e.op = "process" -> ProcessOk(e) [] OTHER -> FALSE
Init == l = 1 /\ bad = <<>>
Next == l <= Len(Rec) /\ l' = l + 1 /\ bad' = IF Matches(Rec[l]) THEN bad ELSE Append(bad, l)
Spec == Init /\ [][Next]_<<l, bad>>
ModelSays(e) == CASE e.op = "load" -> <<IF IsSome(Load(e.doc)) THEN "some" ELSE "none", 0>> [] OTHER -> <<"-", 0>>
Report == (l = Len(Rec) + 1) => /\ \A i \in 1..Len(bad) : PrintT(<<"MISMATCH", bad[i], Rec[bad[i]].op, ModelSays(Rec[bad[i]])>>)
                                /\ PrintT(<<"SUMMARY", Len(Rec), Len(bad)>>)
Accepted == TLCGet("stats").diameter - 1 = Len(Rec)
=============================================================================
