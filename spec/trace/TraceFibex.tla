----------------------------- MODULE TraceFibex -----------------------------
(* Trace validation of the FIBEX loader.                                     *)
(*   load11 (C11): an abstract model, its rendering as token lists (files),  *)
(*          what gather_fibex_data returned for the printed files, and the   *)
(*          answers of extract_metadata.  Verdict: result = Intended(model), *)
(*          lookups = the declarative lookup.  Sanity of the driver's own    *)
(*          renderer: the loader machine run on the token lists must give    *)
(*          Intended(model) as well (register `harness`: a tool error, not a *)
(*          violation).                                                      *)
(*   load12 (C12): a damaged document; verdict: the load ended with a model  *)
(*          or a refusal (no hang, no panic).  For token-level damage the    *)
(*          machine's outcome is compared too (register `drift`, reported).  *)
EXTENDS FibexModel, IOUtils
Rec == ndJsonDeserialize(IOEnv.TRACE)
VARIABLES l, bad, drift, harness
\* order-free comparison of a returned map (list of <<key, value>>) with a model map (function)
MapIs(list, f) == /\ Len(list) = Cardinality(DOMAIN f)
                  /\ Cardinality({list[i][1] : i \in 1..Len(list)}) = Len(list)
                  /\ \A i \in 1..Len(list) : list[i][1] \in DOMAIN f /\ f[list[i][1]] = list[i][2]
ResultIs(r, want) == IF want = None THEN r.v = "refused"
                     ELSE r.v = "model" /\ MapIs(r.frame_map, want[1].frame_map) /\ MapIs(r.keyed, want[1].frame_map_with_key)
\* "returns that frame via the extended header's ids when one is supplied and via the frame id alone otherwise": with an extended header
\* the lookup goes by its ids and by nothing else - no frame stored under them, no answer (the literal reading; a fall-back to the frame id
\* alone was proposed as latitude by the audit and is what the independent author of seeded change C11_I considered a violation)
LookupsOk(e, want) == want # None => \A i \in 1..Len(e.lookups) :
   LET q == e.lookups[i] IN q.res = Lookup(want[1], q.id, q.ext)
\* the result is one of the models the statement allows (FibexModel!Accept), and the lookups answer from that same model
Load11Ok(e) == \E want \in Accept(e.model) : ResultIs(e.res, want) /\ LookupsOk(e, want)
Load12Ok(e) == e.res.v \in {"model", "refused"}
Matches(e) == CASE e.op = "load11" -> Load11Ok(e) [] e.op = "load12" -> Load12Ok(e) [] OTHER -> FALSE
Drifts(e) == e.op = "load12" /\ e.kind = "tokens" /\ e.res.v \in {"model", "refused"} /\ e.res.v # Load(e.files).phase
HarnessWrong(e) == e.op = "load11" /\ Outcome(e.files) # Intended(e.model)
TInit == l = 1 /\ bad = <<>> /\ drift = 0 /\ harness = 0
TNext == /\ l <= Len(Rec) /\ l' = l + 1
         /\ bad' = IF Matches(Rec[l]) THEN bad ELSE Append(bad, l)
         /\ drift' = IF Drifts(Rec[l]) THEN drift + 1 ELSE drift
         /\ harness' = IF HarnessWrong(Rec[l]) THEN harness + 1 ELSE harness
TSpec == TInit /\ [][TNext]_<<l, bad, drift, harness>>
Report == (l = Len(Rec) + 1) => /\ \A i \in 1..Len(bad) : PrintT(<<"MISMATCH", bad[i], Rec[bad[i]].op, <<IF Rec[bad[i]].op = "load11" THEN "intended" ELSE "terminates", 0>> >>)
                                /\ PrintT(<<"DRIFT", drift>>) /\ PrintT(<<"HARNESS", harness>>)
                                /\ PrintT(<<"SUMMARY", Len(Rec), Len(bad)>>)
Accepted == TLCGet("stats").diameter - 1 = Len(Rec)
=============================================================================
