----------------------------- MODULE TraceCodes -----------------------------
(* C14: header-type, message-info and type-info codes, validated on the      *)
(* code's own decode / re-encode results.                                    *)
(*   htyp  b -> the standard header dlt_message decodes from a message whose *)
(*         HTYP is b, and header_type_byte() of that header                  *)
(*   msin  b -> MessageType::try_from(b), u8::from(&mt), and the MSIN byte   *)
(*         of the re-serialised parsed message                               *)
(*   ti    w -> TypeInfo::try_from(w), as_bytes in both orders, and          *)
(*         try_from of the re-encoded word                                   *)
EXTENDS DltCodes, DltMisc, TLC, Json, IOUtils
Rec == ndJsonDeserialize(IOEnv.TRACE)
VARIABLES l, bad
HtypOk(e) == LET d == HtypDec(e.b)  r == e.res IN
  /\ r.v = "msg"
  /\ r.ver = d.ver /\ r.be = d.be /\ r.ueh = d.ueh /\ r.weid = d.weid /\ r.wsid = d.wsid /\ r.wtms = d.wtms       \* what the layout prescribes
  /\ r.reenc = e.b                                                                                                \* decode, re-encode: same byte
\* the same header-type byte under another declared length: IF the parser returns a message, the flags are those of the byte
HtypLenOk(e) == LET d == HtypDec(e.b)  r == e.res IN
  /\ r.v # "panic"
  /\ r.v = "msg" => (r.ver = d.ver /\ r.be = d.be /\ r.ueh = d.ueh /\ r.weid = d.weid /\ r.wsid = d.wsid /\ r.wtms = d.wtms /\ r.reenc = e.b)
MsinOk(e) == LET d == MsinDec(e.b)  r == e.res IN
  /\ r.v = "ok" /\ r.mt = d.mt                                   \* message type and sub-type the layout prescribes
  /\ r.reenc_mt + B(d.verb) = e.b                                \* u8::from(&MessageType) | verbose bit
  /\ r.leg2.pv = "msg" => (r.leg2.verb = d.verb /\ r.leg2.pmt = d.mt /\ r.leg2.reenc = e.b)     \* the same around four payload bytes
  /\ r.pv = "msg" => (r.verb = d.verb /\ r.pmt = d.mt /\ r.reenc = e.b)   \* through the parser and the writer: IF the parser returns a message
                                                                       \* (whether it accepts the canonical message around the byte is C02's subject)
TiOk(e) == LET r == e.res IN
  /\ r.v # "panic" /\ e.second # "panic"                           \* decoding either refuses or yields a description
  /\ ~Accepts(e.w) => e.second # "msg"                             \* a refused word is refused wherever it stands in a message
  /\ (r.v = "ok") <=> Accepts(e.w)                               \* accepted exactly for one supported kind with a supported width
  /\ r.v = "ok" =>
       /\ r.re.v = "ok" /\ r.re.desc = r.desc                    \* the encoding decodes to the same description
       /\ \A k \in 0..31 : TiBit(e.w, k) # TiBit(r.be, k) => k \in UnusedBits(r.desc.kind)      \* differs only in unused bits
       /\ r.le = Rev(r.be)                                       \* same in both byte orders up to byte reversal
\* the same decode through the parser: raw bytes in a big-endian message are the word's big-endian image, in a little-endian
\* message its reverse; whatever was decoded just before must not matter
ViaParser(raw, be) == LET w == IF be THEN raw ELSE Rev(raw)  d == TiDec(w) IN
                      IF d = None THEN [v |-> "refused"] ELSE [v |-> "ok", desc |-> d[1]]
\* the parser's refusal of a word can also come from its payload (40 zero bytes follow: enough for every fixed-size kind; a
\* string / raw length of 0; names of length 0), so an accepted word always yields a message
\* (that the parser accepts the message around an accepted word is C02's subject: a refusal is left alone, a description must be the word's)
PairLeg(got, want) == IF want.v = "ok" THEN got.v = "refused" \/ got = want ELSE got.v = "refused"
TiPairOk(e) == PairLeg(e.a, ViaParser(e.raw, e.first_be)) /\ PairLeg(e.b, ViaParser(e.raw, ~e.first_be))
\* ---- beyond the listed properties (./check extras)
SvcOk(e) == e.res = ServiceName(e.id)
CtlOk(e) == LET c == ControlOf(e.n) IN e.res.kind = c[1] /\ e.res.value = c[2] /\ e.res.back = e.n
WidthOk(e) == e.res = TypeWidth(e.t.kind, e.t.w)
ArgCountOk(e) == e.res = ArgCount(e.p)
LogLevelOk(e) == e.res = LogCrateLevel(e.mtin)
Matches(e) == CASE e.op = "htyp" -> HtypOk(e) [] e.op = "htyplen" -> HtypLenOk(e) [] e.op = "msin" -> MsinOk(e) [] e.op = "ti" -> TiOk(e) [] e.op = "tipair" -> TiPairOk(e)
                [] e.op = "svc" -> SvcOk(e) [] e.op = "ctl" -> CtlOk(e) [] e.op = "width" -> WidthOk(e) [] e.op = "argcount" -> ArgCountOk(e) [] e.op = "loglevel" -> LogLevelOk(e)
                [] OTHER -> FALSE
Init == l = 1 /\ bad = <<>>
Next == l <= Len(Rec) /\ l' = l + 1 /\ bad' = IF Matches(Rec[l]) THEN bad ELSE Append(bad, l)
Spec == Init /\ [][Next]_<<l, bad>>
ModelSays(e) == CASE e.op = "ti" -> <<IF Accepts(e.w) THEN "accept" ELSE "refuse", 0>> [] OTHER -> <<"-", 0>>
Report == (l = Len(Rec) + 1) => /\ \A i \in 1..Len(bad) : PrintT(<<"MISMATCH", bad[i], Rec[bad[i]].op, ModelSays(Rec[bad[i]])>>)
                                /\ PrintT(<<"SUMMARY", Len(Rec), Len(bad)>>)
Accepted == TLCGet("stats").diameter - 1 = Len(Rec)
=============================================================================
