------------------------------- MODULE Fibex -------------------------------
(* The FIBEX (XML) metadata loader (C11, C12).                               *)
(*                                                                           *)
(* Token alphabet (what the XML tokenizer hands to the loader):              *)
(*   [k |-> "S" | "M" | "E" | "T" | "EOF", tag, id, ref, base, txt]          *)
(*   S start tag, M empty element, E end tag, T text; attributes @ID,        *)
(*   @ID-REF, @BASE-DATA-TYPE as options; EOF is sticky (every later read    *)
(*   returns it again).                                                      *)
(*                                                                           *)
(* The machine mirrors the code's structure (DESIGN Appendix C):             *)
(*   ReadEvent  = Reader::read_event with its shared registers and the       *)
(*                open-element stack of the tokenizer (end names are checked)*)
(*   Step       = one read_event in the loop the loader is in:               *)
(*                top (read_fibexes), pdu (read_pdu), frame (read_frame)     *)
(*   Assemble   = map assembly: first definition wins, unknown signals are   *)
(*                skipped, an unknown PDU reference refuses                  *)
(* Named deviations of the code, kept as such: the last SHORT-NAME seen wins *)
(* (nested ones overwrite); S(CODING-REF) (non-empty element) is ignored;    *)
(* DESC takes the text of the next token whatever it is; S_FLOA16 is skipped.*)
(* EofRefuses = TRUE is the property (EOF inside PDU / FRAME refuses);       *)
(* FALSE is the code as found before its repair (loops forever).             *)
EXTENDS Naturals, Sequences, FiniteSets, TLC, SequencesExt

CONSTANT EofRefuses

None == <<>>                 \* option = 0/1-element sequence
Some(x) == <<x>>
IsSome(o) == o # <<>>

Tok(k, tag) == [k |-> k, tag |-> tag, id |-> None, ref |-> None, base |-> None, txt |-> ""]
S(tag) == Tok("S", tag)
E(tag) == Tok("E", tag)
SId(tag, id) == [Tok("S", tag) EXCEPT !.id = Some(id)]
MRef(tag, r) == [Tok("M", tag) EXCEPT !.ref = Some(r)]
MBase(tag, b) == [Tok("M", tag) EXCEPT !.base = Some(b)]
T(txt) == [Tok("T", "") EXCEPT !.txt = txt]
Leaf(tag, txt) == <<S(tag), T(txt), E(tag)>>

Regs0 == [short_name |-> None, description |-> None, byte_length |-> None, id |-> None,
          seq |-> None, ref |-> None, app |-> None, ctx |-> None, mtype |-> None, minfo |-> None, base |-> None]

\* unsigned decimal numbers are carried as text in T tokens
DigitVal(c) == CASE c = "0" -> 0 [] c = "1" -> 1 [] c = "2" -> 2 [] c = "3" -> 3 [] c = "4" -> 4
                 [] c = "5" -> 5 [] c = "6" -> 6 [] c = "7" -> 7 [] c = "8" -> 8 [] c = "9" -> 9 [] OTHER -> 99
\* the texts used as numbers by the generators (TLC strings cannot be taken apart): a table
NumTexts == [t \in {"0", "1", "2", "3", "5", "7", "9", "10", "11", "12", "100"} |->
              CASE t = "10" -> 10 [] t = "11" -> 11 [] t = "12" -> 12 [] t = "100" -> 100 [] OTHER -> DigitVal(t)]
IsNum(t) == t \in DOMAIN NumTexts
NumOf(t) == NumTexts[t]

\* ---- Reader.read_event: consume tokens until an Event is produced
Ev(e) == [e |-> e, id |-> "", seq |-> 0, ref |-> "", short_name |-> None, description |-> None,
          app |-> None, ctx |-> None, mtype |-> None, minfo |-> None]
TextTags == {"SHORT-NAME", "PDU-TYPE", "FRAME-TYPE", "APPLICATION_ID", "CONTEXT_ID", "MESSAGE_TYPE", "MESSAGE_INFO"}

RECURSIVE ReadEvent(_, _, _)
ReadEvent(toks, regs, stack) ==
  IF toks = <<>> THEN [ev |-> Ev("Eof"), toks |-> toks, regs |-> regs, stack |-> stack]
  ELSE
  LET t == Head(toks)  rest == Tail(toks)
      Err == [ev |-> Ev("Err"), toks |-> rest, regs |-> regs, stack |-> stack]
      Out(e, r, st) == [ev |-> e, toks |-> rest, regs |-> r, stack |-> st]
      TextNext == rest # <<>> /\ Head(rest).k = "T"          \* read_text: the next token must be text
      AfterText == IF rest = <<>> THEN rest ELSE Tail(rest)
  IN
  CASE t.k = "EOF" -> [ev |-> Ev("Eof"), toks |-> toks, regs |-> regs, stack |-> stack]   \* sticky
    [] t.k = "T" -> ReadEvent(rest, regs, stack)
    [] t.k = "M" ->
         CASE t.tag \in {"SIGNAL-REF", "PDU-REF", "CODING-REF"} ->
                IF IsSome(t.ref) THEN ReadEvent(rest, [regs EXCEPT !.ref = t.ref], stack) ELSE Err
           [] t.tag = "CODED-TYPE" -> ReadEvent(rest, [regs EXCEPT !.base = t.base], stack)
           [] OTHER -> ReadEvent(rest, regs, stack)
    [] t.k = "S" ->
         LET st2 == Append(stack, t.tag) IN
         CASE t.tag = "PDU" ->
                IF IsSome(t.id)
                THEN Out([Ev("PduStart") EXCEPT !.id = t.id[1]],
                         [regs EXCEPT !.short_name = None, !.byte_length = None, !.description = None], st2)
                ELSE Err
           [] t.tag = "FRAME" ->
                IF IsSome(t.id)
                THEN Out([Ev("FrameStart") EXCEPT !.id = t.id[1]],
                         [regs EXCEPT !.short_name = None, !.byte_length = None], st2)
                ELSE Err
           [] t.tag \in TextTags ->
                IF TextNext
                THEN LET v == Some(Head(rest).txt)
                         r2 == CASE t.tag = "SHORT-NAME" -> [regs EXCEPT !.short_name = v]
                                 [] t.tag = "APPLICATION_ID" -> [regs EXCEPT !.app = v]
                                 [] t.tag = "CONTEXT_ID" -> [regs EXCEPT !.ctx = v]
                                 [] t.tag = "MESSAGE_TYPE" -> [regs EXCEPT !.mtype = v]
                                 [] t.tag = "MESSAGE_INFO" -> [regs EXCEPT !.minfo = v]
                                 [] OTHER -> regs                                        \* PDU-TYPE / FRAME-TYPE: kept nowhere
                     IN ReadEvent(AfterText, r2, st2)
                ELSE [Err EXCEPT !.toks = AfterText]
           [] t.tag = "DESC" ->
                \* read_text(..).ok(): the next token is consumed whatever it is
                \* (if it was this element's own End, the open-element stack shrinks with it)
                LET nxt == IF rest = <<>> THEN Tok("EOF","") ELSE Head(rest)
                    st3 == IF nxt.k = "E" /\ st2 # <<>> /\ Last(st2) = nxt.tag THEN Front(st2)
                           ELSE IF nxt.k = "S" THEN Append(st2, nxt.tag) ELSE st2
                IN IF nxt.k = "E" /\ ~(st2 # <<>> /\ Last(st2) = nxt.tag) THEN [Err EXCEPT !.toks = AfterText]
                   ELSE IF nxt.k = "EOF" THEN ReadEvent(rest, [regs EXCEPT !.description = None], st2)
                   ELSE ReadEvent(AfterText,
                          [regs EXCEPT !.description = IF nxt.k = "T" THEN Some(nxt.txt) ELSE None], st3)
           [] t.tag \in {"BYTE-LENGTH", "SEQUENCE-NUMBER"} ->
                IF TextNext /\ IsNum(Head(rest).txt)
                THEN LET v == Some(NumOf(Head(rest).txt)) IN
                     ReadEvent(AfterText, IF t.tag = "BYTE-LENGTH" THEN [regs EXCEPT !.byte_length = v]
                                                                   ELSE [regs EXCEPT !.seq = v], st2)
                ELSE [Err EXCEPT !.toks = AfterText]
           [] t.tag \in {"SIGNAL-INSTANCE", "PDU-INSTANCE"} ->
                IF IsSome(t.id) THEN ReadEvent(rest, [regs EXCEPT !.id = t.id, !.ref = None, !.seq = None], st2)
                ELSE Err
           [] t.tag \in {"SIGNAL-REF", "PDU-REF"} ->
                IF IsSome(t.ref) THEN ReadEvent(rest, [regs EXCEPT !.ref = t.ref], st2) ELSE Err
           [] t.tag = "MANUFACTURER-EXTENSION" ->
                ReadEvent(rest, [regs EXCEPT !.app = None, !.ctx = None, !.mtype = None, !.minfo = None], st2)
           [] t.tag = "CODING" ->
                IF IsSome(t.id) THEN ReadEvent(rest, [regs EXCEPT !.id = t.id, !.base = None], st2) ELSE Err
           [] t.tag = "SIGNAL" ->
                IF IsSome(t.id) THEN ReadEvent(rest, [regs EXCEPT !.id = t.id, !.ref = None], st2) ELSE Err
           [] t.tag = "CODED-TYPE" -> ReadEvent(rest, [regs EXCEPT !.base = t.base], st2)
           [] OTHER -> ReadEvent(rest, regs, st2)          \* incl. S(CODING-REF): ignored (deviation)
    [] t.k = "E" ->
         IF stack = <<>> \/ Last(stack) # t.tag THEN Err      \* tokenizer: mismatched end name
         ELSE
         LET st2 == Front(stack) IN
         CASE t.tag = "PDU" ->
                IF IsSome(regs.byte_length)
                THEN Out([Ev("PduEnd") EXCEPT !.short_name = regs.short_name, !.description = regs.description],
                         [regs EXCEPT !.short_name = None, !.description = None, !.byte_length = None], st2)
                ELSE [Err EXCEPT !.regs = [regs EXCEPT !.short_name = None, !.description = None]]
           [] t.tag = "FRAME" ->
                IF IsSome(regs.short_name) /\ IsSome(regs.byte_length)
                THEN Out([Ev("FrameEnd") EXCEPT !.short_name = regs.short_name],
                         [regs EXCEPT !.short_name = None, !.byte_length = None], st2)
                ELSE Err
           [] t.tag \in {"SIGNAL-INSTANCE", "PDU-INSTANCE"} ->
                IF IsSome(regs.id) /\ IsSome(regs.seq) /\ IsSome(regs.ref)
                THEN Out([Ev(IF t.tag = "SIGNAL-INSTANCE" THEN "SignalInstance" ELSE "PduInstance")
                            EXCEPT !.id = regs.id[1], !.seq = regs.seq[1], !.ref = regs.ref[1]],
                         [regs EXCEPT !.id = None, !.seq = None, !.ref = None], st2)
                ELSE Err
           [] t.tag = "MANUFACTURER-EXTENSION" ->
                Out([Ev("ME") EXCEPT !.app = regs.app, !.ctx = regs.ctx, !.mtype = regs.mtype, !.minfo = regs.minfo],
                    [regs EXCEPT !.app = None, !.ctx = None, !.mtype = None, !.minfo = None], st2)
           [] t.tag = "SIGNAL" ->
                IF IsSome(regs.id) /\ IsSome(regs.ref)
                THEN Out([Ev("Signal") EXCEPT !.id = regs.id[1], !.ref = regs.ref[1]], [regs EXCEPT !.id = None, !.ref = None], st2)
                ELSE Err
           [] t.tag = "CODING" ->
                IF IsSome(regs.id) /\ IsSome(regs.base)
                THEN Out([Ev("Coding") EXCEPT !.id = regs.id[1], !.ref = regs.base[1]], [regs EXCEPT !.id = None, !.base = None], st2)
                ELSE Err
           [] OTHER -> ReadEvent(rest, regs, st2)

\* ---- stable insertion sort by sequence number (sort_by_key is stable)
RECURSIVE InsertSorted(_, _)
InsertSorted(s, x) == IF s = <<>> THEN <<x>>
                      ELSE IF x[1] < Head(s)[1] THEN <<x>> \o s
                      ELSE <<Head(s)>> \o InsertSorted(Tail(s), x)
RECURSIVE StableSort(_)
StableSort(s) == IF s = <<>> THEN <<>> ELSE InsertSorted(StableSort(Front(s)), Last(s))
Refs(s) == [i \in 1..Len(s) |-> s[i][2]]

\* ---- loader state: one read_event per step
Init0(files) ==
  [phase |-> "top", files |-> files, toks |-> IF files = <<>> THEN <<>> ELSE Head(files),
   regs |-> Regs0, stack |-> <<>>,
   pdus |-> <<>>, frames |-> <<>>,            \* collected in encounter order
   signals |-> <<>>, codings |-> <<>>,        \* sequences of <<id, ref>>; a later entry overrides an earlier one
   cur |-> <<>>, curId |-> "", fr |-> [app |-> None, ctx |-> None, mtype |-> None, minfo |-> None],
   result |-> None]

Step(s) ==
  IF s.phase \in {"model", "refused"} THEN s
  ELSE IF s.phase = "top" /\ s.files = <<>> THEN [s EXCEPT !.phase = "assemble"]
  ELSE IF s.phase = "assemble" THEN s   \* see FullStep
  ELSE
  LET r == ReadEvent(s.toks, s.regs, s.stack)
      s1 == [s EXCEPT !.toks = r.toks, !.regs = r.regs, !.stack = r.stack]
      ev == r.ev
  IN
  IF ev.e = "Err" THEN [s1 EXCEPT !.phase = "refused"]
  ELSE CASE s.phase = "top" ->
         CASE ev.e = "PduStart" -> [s1 EXCEPT !.phase = "pdu", !.cur = <<>>, !.curId = ev.id]
           [] ev.e = "FrameStart" -> [s1 EXCEPT !.phase = "frame", !.cur = <<>>, !.curId = ev.id,
                                      !.fr = [app |-> None, ctx |-> None, mtype |-> None, minfo |-> None]]
           [] ev.e = "Signal" -> [s1 EXCEPT !.signals = Append(@, <<ev.id, ev.ref>>)]
           [] ev.e = "Coding" -> [s1 EXCEPT !.codings = Append(@, <<ev.id, ev.ref>>)]
           [] ev.e = "Eof" -> LET fs == Tail(s.files) IN          \* next file: a fresh Reader (registers and stack reset)
                              [s1 EXCEPT !.files = fs, !.toks = IF fs = <<>> THEN <<>> ELSE Head(fs),
                                         !.regs = Regs0, !.stack = <<>>]
           [] OTHER -> s1
    [] s.phase = "pdu" ->
         CASE ev.e = "SignalInstance" -> [s1 EXCEPT !.cur = Append(@, <<ev.seq, ev.ref>>)]
           [] ev.e = "PduEnd" -> [s1 EXCEPT !.phase = "top",
                                   !.pdus = Append(@, [id |-> s.curId, description |-> ev.description,
                                                       refs |-> Refs(StableSort(s.cur))])]
           [] ev.e = "Eof" -> IF EofRefuses THEN [s1 EXCEPT !.phase = "refused"] ELSE s1
           [] OTHER -> s1
    [] s.phase = "frame" ->
         CASE ev.e = "PduInstance" -> [s1 EXCEPT !.cur = Append(@, <<ev.seq, ev.ref>>)]
           [] ev.e = "ME" -> [s1 EXCEPT !.fr = [app |-> ev.app, ctx |-> ev.ctx, mtype |-> ev.mtype, minfo |-> ev.minfo]]
           [] ev.e = "FrameEnd" -> [s1 EXCEPT !.phase = "top",
                                     !.frames = Append(@, [id |-> s.curId, short_name |-> ev.short_name[1],
                                                           app |-> s.fr.app, ctx |-> s.fr.ctx, mtype |-> s.fr.mtype,
                                                           minfo |-> s.fr.minfo, refs |-> Refs(StableSort(s.cur))])]
           [] ev.e = "Eof" -> IF EofRefuses THEN [s1 EXCEPT !.phase = "refused"] ELSE s1
           [] OTHER -> s1

\* ---- the type vocabulary (type_info_for_signal_ref)
Ty(k, w, c) == [kind |-> k, w |-> w, cod |-> c, vari |-> FALSE, trai |-> FALSE]
StdSignal(r) ==
  CASE r = "S_BOOL" -> Some(Ty("bool", 0, 0))
    [] r = "S_SINT8" -> Some(Ty("sint", 8, 0))   [] r = "S_UINT8" -> Some(Ty("uint", 8, 0))
    [] r = "S_SINT16" -> Some(Ty("sint", 16, 0)) [] r = "S_UINT16" -> Some(Ty("uint", 16, 0))
    [] r = "S_SINT32" -> Some(Ty("sint", 32, 0)) [] r = "S_UINT32" -> Some(Ty("uint", 32, 0))
    [] r = "S_SINT64" -> Some(Ty("sint", 64, 0)) [] r = "S_UINT64" -> Some(Ty("uint", 64, 0))
    [] r = "S_FLOA32" -> Some(Ty("float", 32, 0)) [] r = "S_FLOA64" -> Some(Ty("float", 64, 0))
    [] r = "S_STRG_ASCII" -> Some(Ty("str", 0, 0)) [] r = "S_STRG_UTF8" -> Some(Ty("str", 0, 1))
    [] r \in {"S_RAWD", "S_RAW"} -> Some(Ty("raw", 0, 0))
    [] OTHER -> None
IsStdName(r) == IsSome(StdSignal(r)) \/ r = "S_FLOA16"          \* S_FLOA16 is a standard name that maps to nothing (skipped)
BaseType(b) ==
  CASE b = "A_UINT8" -> Some(Ty("uint", 8, 0))    [] b \in {"A_INT8", "A_SINT8"} -> Some(Ty("sint", 8, 0))
    [] b = "A_UINT16" -> Some(Ty("uint", 16, 0))  [] b \in {"A_INT16", "A_SINT16"} -> Some(Ty("sint", 16, 0))
    [] b = "A_UINT32" -> Some(Ty("uint", 32, 0))  [] b \in {"A_INT32", "A_SINT32"} -> Some(Ty("sint", 32, 0))
    [] b = "A_UINT64" -> Some(Ty("uint", 64, 0))  [] b \in {"A_INT64", "A_SINT64"} -> Some(Ty("sint", 64, 0))
    [] b = "A_FLOAT32" -> Some(Ty("float", 32, 0)) [] b = "A_FLOAT64" -> Some(Ty("float", 64, 0))
    [] b = "A_ASCIISTRING" -> Some(Ty("str", 0, 0)) [] b = "A_UNICODE2STRING" -> Some(Ty("str", 0, 1))
    [] OTHER -> None
\* lookup in an association sequence where a later entry overrides an earlier one
LastWith(seq, key) == LET idx == {i \in 1..Len(seq) : seq[i][1] = key} IN
                      IF idx = {} THEN None ELSE Some(seq[CHOOSE i \in idx : \A j \in idx : j <= i][2])
SigType(r, signals, codings) ==
  IF IsStdName(r) THEN StdSignal(r)
  ELSE LET c == LastWith(signals, r) IN
       IF c = None THEN None
       ELSE LET b == LastWith(codings, c[1]) IN IF b = None THEN None ELSE BaseType(b[1])

\* ---- assembly (tail of read_fibexes)
FirstIdx(seq, id) == CHOOSE i \in 1..Len(seq) : seq[i].id = id /\ \A j \in 1..(i-1) : seq[j].id # id
PduIds(s) == {s.pdus[i].id : i \in 1..Len(s.pdus)}
PduMeta(p, signals, codings) ==
  [description |-> p.description,
   signal_types |-> LET ts == [i \in 1..Len(p.refs) |-> SigType(p.refs[i], signals, codings)]
                        keep == SelectSeq(ts, IsSome) IN [i \in 1..Len(keep) |-> keep[i][1]]]
Keyed(f) == IsSome(f.ctx) /\ IsSome(f.app)
KeyOf(f) == <<f.ctx[1], f.app[1], f.id>>
Assemble(s) ==
  IF \E i \in 1..Len(s.frames) : \E j \in 1..Len(s.frames[i].refs) : s.frames[i].refs[j] \notin PduIds(s)
  THEN [s EXCEPT !.phase = "refused"]
  ELSE LET pduOf(id) == PduMeta(s.pdus[FirstIdx(s.pdus, id)], s.signals, s.codings)
           FrameMeta(f) == [short_name |-> f.short_name, app |-> f.app, ctx |-> f.ctx, mtype |-> f.mtype,
                            minfo |-> f.minfo, pdus |-> [j \in 1..Len(f.refs) |-> pduOf(f.refs[j])]]
           ids == {s.frames[i].id : i \in 1..Len(s.frames)}
           byId == [id \in ids |-> FrameMeta(s.frames[FirstIdx(s.frames, id)])]
           keys == {KeyOf(s.frames[i]) : i \in {k \in 1..Len(s.frames) : Keyed(s.frames[k])}}
           FirstKeyed(k) == CHOOSE i \in 1..Len(s.frames) :
                               /\ Keyed(s.frames[i]) /\ KeyOf(s.frames[i]) = k
                               /\ \A j \in 1..(i-1) : ~(Keyed(s.frames[j]) /\ KeyOf(s.frames[j]) = k)
           byKey == [k \in keys |-> FrameMeta(s.frames[FirstKeyed(k)])]
       IN [s EXCEPT !.phase = "model", !.result = Some([frame_map |-> byId, frame_map_with_key |-> byKey])]

FullStep(s) == IF s.phase = "assemble" THEN Assemble(s) ELSE Step(s)

Done(s) == s.phase \in {"model", "refused"}
RECURSIVE RunF(_, _)
RunF(s, fuel) == IF Done(s) THEN s ELSE IF fuel = 0 THEN [s EXCEPT !.phase = "diverges"] ELSE RunF(FullStep(s), fuel - 1)
TokCount(files) == LET RECURSIVE Sum(_) Sum(fs) == IF fs = <<>> THEN 0 ELSE Len(Head(fs)) + Sum(Tail(fs)) IN Sum(files)
\* gather_fibex_data: an empty path list gives nothing
Load(files) == IF files = <<>> THEN [phase |-> "refused", result |-> None]
               ELSE RunF(Init0(files), TokCount(files) + 2 * Len(files) + 4)
Outcome(files) == LET r == Load(files) IN IF r.phase = "model" THEN r.result ELSE None

\* ---- extract_metadata: by (context id, application id, "ID_<n>") when an extended header is supplied, by "ID_<n>" alone otherwise
Lookup(meta, idtext, ext) ==   \* ext: None | Some([ap, ct]) ; result: None | Some(frame)
  IF IsSome(ext) THEN (IF <<ext[1].ct, ext[1].ap, idtext>> \in DOMAIN meta.frame_map_with_key THEN Some(meta.frame_map_with_key[<<ext[1].ct, ext[1].ap, idtext>>]) ELSE None)
  ELSE (IF idtext \in DOMAIN meta.frame_map THEN Some(meta.frame_map[idtext]) ELSE None)
=============================================================================
