------------------------------- MODULE Bytes -------------------------------
EXTENDS Naturals, Sequences, FiniteSets, SequencesExt
Byte == 0..255
Bit(b, k) == (b \div (2^k)) % 2
Sub(s, a, b) == IF b < a THEN <<>> ELSE SubSeq(s, a, b)          \* inclusive bounds, empty if b < a
Rev(s) == [i \in 1..Len(s) |-> s[Len(s) + 1 - i]]
Norm(s, be) == IF be THEN s ELSE Rev(s)                          \* field bytes -> big-endian image (and back)
U16(s, p, be) == IF be THEN s[p] * 256 + s[p+1] ELSE s[p+1] * 256 + s[p]
U16Bytes(n, be) == Norm(<<n \div 256, n % 256>>, be)
None == <<>>
Some(x) == <<x>>
IsSome(o) == o # <<>>
\* index (absolute) of the first NUL in s[p..q], 0 if none; linear (Java override of SelectInSeq).
\* NB: SelectInSubSeq is avoided: its Java override returns an absolute index, its TLA+ definition a relative one.
FirstNul(s, p, q) == IF q < p THEN 0
                     ELSE LET r == SelectInSeq(SubSeq(s, p, q), LAMBDA b : b = 0) IN IF r = 0 THEN 0 ELSE p + r - 1
\* least index i with s[i..i+3] = "DLT\x01", 0 if none; linear fold carrying <<matched prefix length, first hit>>
Pattern == <<68, 76, 84, 1>>
FindPattern(s) ==
  LET step(acc, i) ==
        IF acc[2] # 0 THEN acc
        ELSE LET b == s[i]
                 m == IF b = Pattern[acc[1] + 1] THEN acc[1] + 1
                      ELSE IF b = 68 THEN 1 ELSE 0          \* the pattern has no proper border: restart only on 'D'
             IN IF m = 4 THEN <<0, i - 3>> ELSE <<m, 0>>
  IN FoldLeftDomain(step, <<0, 0>>, s)[2]
=============================================================================
