------------------------------ MODULE DltCodes ------------------------------
(* HTYP, MSIN and type-info codes of the DLT layout (AUTOSAR PRS DLT).       *)
EXTENDS Naturals, Sequences, FiniteSets, Bytes
\* ---- HTYP: bit0 UEH, bit1 MSBF, bit2 WEID, bit3 WSID, bit4 WTMS, bits5-7 VERS
HtypDec(b) == [ueh |-> Bit(b,0) = 1, be |-> Bit(b,1) = 1, weid |-> Bit(b,2) = 1,
               wsid |-> Bit(b,3) = 1, wtms |-> Bit(b,4) = 1, ver |-> b \div 32]
B(x) == IF x THEN 1 ELSE 0
HtypEnc(h) == B(h.ueh) + 2 * B(h.be) + 4 * B(h.weid) + 8 * B(h.wsid) + 16 * B(h.wtms) + 32 * (h.ver % 8)
StdLen(b) == 4 + 4 * Bit(b,2) + 4 * Bit(b,3) + 4 * Bit(b,4)
HdrsLen(b) == StdLen(b) + 10 * Bit(b,0)
\* ---- MSIN: bit0 VERB, bits1-3 MSTP, bits4-7 MTIN.  A message type is the pair <<mstp, mtin>>.
MsinDec(b) == [verb |-> Bit(b,0) = 1, mt |-> <<(b \div 2) % 8, b \div 16>>]
MsinEnc(verb, mt) == B(verb) + 2 * mt[1] + 16 * mt[2]
MSTP_LOG == 0  MSTP_APP == 1  MSTP_NW == 2  MSTP_CTRL == 3
\* ---- type info (32-bit word in payload byte order; here: its 4-byte big-endian image <<b3,b2,b1,b0>>)
\* bits 0-3 TYLE, 4 BOOL, 5 SINT, 6 UINT, 7 FLOA, 8 ARAY, 9 STRG, 10 RAWD, 11 VARI, 12 FIXP, 13 TRAI, 14 STRU, 15-17 SCOD
TiBit(w, k) == Bit(w[4 - (k \div 8)], k % 8)           \* w = big-endian image
Tyle(w) == w[4] % 16
KindBits(w) == (w[4] \div 16) + 16 * (w[3] % 8)        \* bits 4..10 as a number 0..127
Scod(w) == (w[3] \div 128) + 2 * (w[2] % 4)            \* bits 15..17
WidthOf(t) == CASE t = 1 -> 8 [] t = 2 -> 16 [] t = 3 -> 32 [] t = 4 -> 64 [] t = 5 -> 128 [] OTHER -> 0
\* TiDec: <<>> if refused, else <<description>>
TiDec(w) ==
  LET kb == KindBits(w)  t == Tyle(w)  fixp == TiBit(w, 12) = 1
      mk(kind, width) == Some([kind |-> kind, w |-> width, cod |-> Scod(w), vari |-> TiBit(w, 11) = 1, trai |-> TiBit(w, 13) = 1])
  IN CASE kb = 1  -> mk("bool", 0)
       [] kb = 2  -> IF fixp THEN (IF t \in {3,4} THEN mk("sfp", WidthOf(t)) ELSE None)
                             ELSE (IF t \in 1..5 THEN mk("sint", WidthOf(t)) ELSE None)
       [] kb = 4  -> IF fixp THEN (IF t \in {3,4} THEN mk("ufp", WidthOf(t)) ELSE None)
                             ELSE (IF t \in 1..5 THEN mk("uint", WidthOf(t)) ELSE None)
       [] kb = 8  -> IF t \in {3,4} THEN mk("float", WidthOf(t)) ELSE None
       [] kb = 32 -> mk("str", 0)
       [] kb = 64 -> mk("raw", 0)
       [] OTHER   -> None
TyleOf(width) == CASE width = 8 -> 1 [] width = 16 -> 2 [] width = 32 -> 3 [] width = 64 -> 4 [] width = 128 -> 5 [] OTHER -> 0
\* canonical word (big-endian image) for a description
TiEnc(d) ==
  LET kbit == CASE d.kind = "bool" -> 4 [] d.kind \in {"sint","sfp"} -> 5 [] d.kind \in {"uint","ufp"} -> 6
                [] d.kind = "float" -> 7 [] d.kind = "str" -> 9 [] d.kind = "raw" -> 10
      bits == {kbit} \cup (IF d.vari THEN {11} ELSE {}) \cup (IF d.kind \in {"sfp","ufp"} THEN {12} ELSE {})
                     \cup (IF d.trai THEN {13} ELSE {})
      byteOf(j) ==  \* j = 0 (least significant) .. 3
         LET fromBits == LET S == {k \in bits : k \div 8 = j} IN
                           (IF 4 \in S THEN 16 ELSE 0) + (IF 5 \in S THEN 32 ELSE 0) + (IF 6 \in S THEN 64 ELSE 0)
                         + (IF 7 \in S THEN 128 ELSE 0) + (IF 9 \in S THEN 2 ELSE 0) + (IF 10 \in S THEN 4 ELSE 0)
                         + (IF 11 \in S THEN 8 ELSE 0) + (IF 12 \in S THEN 16 ELSE 0) + (IF 13 \in S THEN 32 ELSE 0)
         IN CASE j = 0 -> fromBits + TyleOf(d.w)
              [] j = 1 -> fromBits + 128 * (d.cod % 2)
              [] j = 2 -> (d.cod \div 2) % 4
              [] j = 3 -> 0
  IN <<byteOf(3), byteOf(2), byteOf(1), byteOf(0)>>
\* ---- the declarative acceptance rule and the bits the format leaves unused per kind (C14)
KindBitSet(w) == {k \in 4..10 : TiBit(w, k) = 1}
Accepts(w) ==      \* "names one supported kind with a supported width"
  /\ Cardinality(KindBitSet(w)) = 1 /\ TiBit(w, 8) = 0                          \* exactly one of BOOL SINT UINT FLOA STRG RAWD; no ARAY
  /\ (TiBit(w, 5) = 1 \/ TiBit(w, 6) = 1) => (IF TiBit(w, 12) = 1 THEN Tyle(w) \in {3, 4} ELSE Tyle(w) \in 1..5)
  /\ TiBit(w, 7) = 1 => Tyle(w) \in {3, 4}
\* bits that carry no information for a kind: decode ignores them, encode writes them as zero
UnusedBits(kind) ==
  CASE kind \in {"bool", "str", "raw"} -> (0..3) \cup {12, 14} \cup (18..31)      \* TYLE, FIXP, STRU, reserved
    [] kind = "float"                 -> {12, 14} \cup (18..31)                  \* FIXP, STRU, reserved
    [] OTHER                          -> {14} \cup (18..31)                      \* STRU, reserved
=============================================================================
