------------------------------- MODULE Reader -------------------------------
(* The framed readers over a byte source (C07 blocking, C08 async): a       *)
(* BufReader in front of the source, and a two-phase read_exact - the fixed *)
(* header (storage header + 4 bytes), then the remainder announced by the    *)
(* length field at offset 2 of the standard header.                          *)
(*                                                                           *)
(* State (a record, so that the exhaustive instance and the trace            *)
(* specification share the same step functions):                             *)
(*   fed    bytes the source has handed out so far                           *)
(*   taken  bytes of completely delivered messages                           *)
(*   phase  "hdr" | "body"     need: bytes the current message needs in all  *)
(*   eof    the source has answered 0 (end of data)                          *)
(*   term   "run" | "eos" | "err"                                            *)
(*   out    lengths of the delivered slices, in order                        *)
(* Actions (one per step of the code): Fill(k) - the source returns k >= 1   *)
(* bytes, any short count; Interrupted / Pending - nothing changes, the read *)
(* is retried / the future is polled again; SrcEof; HdrDone (length < 4 =>   *)
(* err); BodyDone (deliver); EndOfStream / BodyError after SrcEof.           *)
EXTENDS Naturals, Sequences, Bytes
Init0 == [fed |-> 0, taken |-> 0, phase |-> "hdr", need |-> 0, eof |-> FALSE, term |-> "run", out |-> <<>>]
HL(sh) == (IF sh THEN 16 ELSE 0) + 4
Avail(s) == s.fed - s.taken
Target(s, sh) == IF s.phase = "hdr" THEN HL(sh) ELSE s.need
\* the reader asks its source only when what it holds is not enough for the current read_exact
Wants(s, sh) == s.term = "run" /\ ~s.eof /\ Avail(s) < Target(s, sh)
Fill(s, k) == [s EXCEPT !.fed = @ + k]
SrcEof(s) == [s EXCEPT !.eof = TRUE]
DeclaredLen(stream, s, sh) == U16(stream, s.taken + (IF sh THEN 16 ELSE 0) + 3, TRUE)
HdrEnabled(s, sh) == s.term = "run" /\ s.phase = "hdr" /\ Avail(s) >= HL(sh)
HdrDone(stream, s, sh) == LET d == DeclaredLen(stream, s, sh) IN
                          IF d < 4 THEN [s EXCEPT !.term = "err"]                     \* shorter than its own header
                          ELSE [s EXCEPT !.phase = "body", !.need = (IF sh THEN 16 ELSE 0) + d]
BodyEnabled(s) == s.term = "run" /\ s.phase = "body" /\ Avail(s) >= s.need
BodyDone(s) == [s EXCEPT !.taken = @ + s.need, !.phase = "hdr", !.need = 0, !.out = Append(@, s.need)]
\* after the source's end: an unfinished header read ends the stream, an unfinished body read is an error
EndEnabled(s, sh) == s.term = "run" /\ s.eof /\ Avail(s) < Target(s, sh)
End(s) == [s EXCEPT !.term = IF s.phase = "hdr" THEN "eos" ELSE "err"]

\* ---- ground truth: cut the stream at the declared lengths (independent of the machine above)
RECURSIVE CutFrom(_, _, _)
CutFrom(stream, p, sh) ==          \* lengths of the complete messages from offset p
  LET o == IF sh THEN 16 ELSE 0 IN
  IF Len(stream) - p < o + 4 THEN <<>>
  ELSE LET d == U16(stream, p + o + 3, TRUE) IN
       IF d < 4 \/ p + o + d > Len(stream) THEN <<>> ELSE <<o + d>> \o CutFrom(stream, p + o + d, sh)
Cut(stream, sh) == CutFrom(stream, 0, sh)
RECURSIVE SumSeq(_)
SumSeq(q) == IF q = <<>> THEN 0 ELSE Head(q) + SumSeq(Tail(q))
TailLen(stream, sh) == Len(stream) - SumSeq(Cut(stream, sh))       \* bytes after the last complete message
\* allowed terminal outcomes: nothing left -> end of stream; a truncated / hostile tail -> end of stream or an error, never a message
AllowedEnd(stream, sh) == IF TailLen(stream, sh) = 0 THEN {"eos"} ELSE {"eos", "err"}
IsPrefixSeq(a, b) == Len(a) <= Len(b) /\ SubSeq(b, 1, Len(a)) = a
=============================================================================
