-------------------------- MODULE TimestampArith --------------------------
(* Unbounded arithmetic facts behind C17, proved with TLAPS (SMT back end). *)
(* The trace validation and the bounded instances work on base-1000         *)
(* numerals (spec/Numerals.tla, spec/DltBuild.tla: FromMs drops the last    *)
(* limb, FromUs the last two); these theorems state the same identities on  *)
(* the naturals, for every input, not only for those a bounded run reaches. *)
EXTENDS Naturals, TLAPS

SecsOfMs(ms) == ms \div 1000
MicrosOfMs(ms) == (ms % 1000) * 1000
SecsOfUs(us) == us \div 1000000
MicrosOfUs(us) == us % 1000000

\* the pair (seconds, microseconds) built from milliseconds denotes ms * 1000 microseconds, and its microsecond part is in range
THEOREM FromMsDenotes == \A ms \in Nat : /\ SecsOfMs(ms) * 1000000 + MicrosOfMs(ms) = ms * 1000
                                         /\ MicrosOfMs(ms) < 1000000
  BY DEF SecsOfMs, MicrosOfMs

THEOREM FromUsDenotes == \A us \in Nat : /\ SecsOfUs(us) * 1000000 + MicrosOfUs(us) = us
                                         /\ MicrosOfUs(us) < 1000000
  BY DEF SecsOfUs, MicrosOfUs

\* both constructors agree on the instant: from_ms(ms) = from_us(1000 * ms)
THEOREM SameInstant == \A ms \in Nat : /\ SecsOfMs(ms) = SecsOfUs(ms * 1000)
                                       /\ MicrosOfMs(ms) = MicrosOfUs(ms * 1000)
  BY DEF SecsOfMs, MicrosOfMs, SecsOfUs, MicrosOfUs
=============================================================================
