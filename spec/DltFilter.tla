------------------------------ MODULE DltFilter ------------------------------
(* Message filtering (C09).                                                   *)
(*  cfg = [min  |-> None | Some(0..255),       numeric minimum level          *)
(*         app, ctx, ecu |-> None | Some(<<id, ...>>),   allowed ids (lists)  *)
(*         appc, ctxc |-> Int]                 declared total id counts       *)
(*  Dropped    : the declarative rule, written from the statement of C09      *)
(*  DroppedOp  : the decision procedure in the order the parser takes it      *)
(*  MC theorem : they coincide (spec/mc/MCFilter).                            *)
EXTENDS Integers, Sequences, FiniteSets, Bytes, DltCodes
SetOf(seq) == {seq[i] : i \in 1..Len(seq)}
\* numeric levels outside 1..6 mean "no level filtering"
MinLevel(cfg) == IF IsSome(cfg.min) /\ cfg.min[1] \in 1..6 THEN Some(cfg.min[1]) ELSE None
IsLog(ext) == ext.mt[1] = MSTP_LOG
ValidLevel(n) == n \in 1..6
\* ---- declarative (statement of C09)
LevelFails(cfg, ext) == /\ IsSome(MinLevel(cfg)) /\ IsLog(ext) /\ ValidLevel(ext.mt[2])
                        /\ ext.mt[2] > MinLevel(cfg)[1]                 \* less severe than the minimum
AppFails(cfg, ext) == IsSome(cfg.app) /\ ext.ap \notin SetOf(cfg.app[1])
CtxFails(cfg, ext) == IsSome(cfg.ctx) /\ ext.ct \notin SetOf(cfg.ctx[1])
EcuFails(cfg, hdr) == IsSome(cfg.ecu) /\ IsSome(hdr.ecu) /\ hdr.ecu[1] \notin SetOf(cfg.ecu[1])
Dropped(cfg, hdr, ext) ==       \* ext: None | Some(extended header)
  IF IsSome(ext)
  THEN LevelFails(cfg, ext[1]) \/ AppFails(cfg, ext[1]) \/ CtxFails(cfg, ext[1]) \/ EcuFails(cfg, hdr)
  ELSE \/ IsSome(cfg.app) /\ Cardinality(SetOf(cfg.app[1])) < cfg.appc
       \/ IsSome(cfg.ctx) /\ Cardinality(SetOf(cfg.ctx[1])) < cfg.ctxc
\* ---- operational (order of the checks in the parser; the level order is spelt out as a table)
\* Severity rank: Fatal(1) most severe ... Verbose(6) least severe.
SkipWithLevel(ext, min) ==      \* min \in 1..6
  IF ~IsLog(ext) THEN FALSE
  ELSE IF ~ValidLevel(ext.mt[2]) THEN FALSE       \* invalid message level: never skipped
  ELSE min < ext.mt[2]
HasId(list, id) == \E i \in 1..Len(list) : list[i] = id
DroppedOp(cfg, hdr, ext) ==
  IF IsSome(ext) THEN
    LET x == ext[1]  ml == MinLevel(cfg) IN
    IF IsSome(ml) /\ SkipWithLevel(x, ml[1]) THEN TRUE
    ELSE IF IsSome(cfg.app) /\ ~HasId(cfg.app[1], x.ap) THEN TRUE
    ELSE IF IsSome(cfg.ctx) /\ ~HasId(cfg.ctx[1], x.ct) THEN TRUE
    ELSE IF IsSome(cfg.ecu) /\ IsSome(hdr.ecu) /\ ~HasId(cfg.ecu[1], hdr.ecu[1]) THEN TRUE
    ELSE FALSE
  ELSE
    IF IsSome(cfg.app) /\ cfg.appc > Cardinality(SetOf(cfg.app[1])) THEN TRUE
    ELSE IF IsSome(cfg.ctx) /\ cfg.ctxc > Cardinality(SetOf(cfg.ctx[1])) THEN TRUE
    ELSE FALSE
=============================================================================
