------------------------------ MODULE FilterJson ------------------------------
(* The filter configuration as a document (growth beyond the listed         *)
(* properties, DESIGN section 10 item 4): what `read_filter_options` makes  *)
(* of a JSON text, and what the conversion into the processed configuration *)
(* keeps of it.  The document is abstract: the lexical layer of JSON is the *)
(* JSON library's, the MEANING of a document for this crate is stated here. *)
(*                                                                          *)
(*  doc = [form |-> "map" | "seq",  ent |-> <<entry, ...>>]                 *)
(*  entry = [k |-> field name (map form; ignored in seq form),              *)
(*           t |-> "null" | "int" | "list" | "str" | "bool",                *)
(*           n |-> Int (t = "int"),  s |-> <<string, ...>> (t = "list")]    *)
(*  A configuration is  [min |-> None | Some(0..255),                       *)
(*                       app, ecu, ctx |-> None | Some(<<id, ...>>),        *)
(*                       appc, ctxc |-> Int]                                *)
(*  which is exactly the `cfg` of module DltFilter.                         *)
EXTENDS Integers, Sequences, FiniteSets, Bytes
FieldOrder == <<"min_log_level", "app_ids", "ecu_ids", "context_ids", "app_id_count", "context_id_count">>
Fields == {FieldOrder[i] : i \in 1..6}
Optional == {"min_log_level", "app_ids", "ecu_ids", "context_ids"}
\* ---- one value against the type of its field: <<ok, value>>
AsLevel(e)  == CASE e.t = "null" -> <<TRUE, None>>
                 [] e.t = "int" /\ e.n \in 0..255 -> <<TRUE, Some(e.n)>>
                 [] OTHER -> <<FALSE, None>>                     \* a number that is no u8, or another kind of value
AsIds(e)    == CASE e.t = "null" -> <<TRUE, None>>
                 [] e.t = "list" -> <<TRUE, Some(e.s)>>
                 [] OTHER -> <<FALSE, None>>
AsCount(e)  == IF e.t = "int" THEN <<TRUE, e.n>> ELSE <<FALSE, 0>>      \* required and not nullable
Typed(name, e) == CASE name = "min_log_level" -> AsLevel(e)
                    [] name \in {"app_ids", "ecu_ids", "context_ids"} -> AsIds(e)
                    [] OTHER -> AsCount(e)
\* ---- the map form: unknown keys are ignored, a known key at most once, optional fields may be missing
Occ(doc, name) == {i \in 1..Len(doc.ent) : doc.ent[i].k = name}
MapOk(doc) == /\ \A name \in Fields : Cardinality(Occ(doc, name)) <= 1                       \* a repeated field is refused
              /\ \A name \in Fields \ Optional : Occ(doc, name) # {}                           \* the counts are required
              /\ \A i \in 1..Len(doc.ent) : doc.ent[i].k \in Fields => Typed(doc.ent[i].k, doc.ent[i])[1]
MapVal(doc, name) == IF Occ(doc, name) = {} THEN None                                          \* (only reached for optional fields)
                     ELSE Typed(name, doc.ent[CHOOSE i \in Occ(doc, name) : TRUE])[2]
\* ---- the sequence form: exactly the six fields in declaration order
SeqOk(doc) == Len(doc.ent) = 6 /\ \A i \in 1..6 : Typed(FieldOrder[i], doc.ent[i])[1]
SeqVal(doc, i) == Typed(FieldOrder[i], doc.ent[i])[2]
Load(doc) ==      \* None: refused;  Some(cfg)
  IF doc.form = "map" THEN
    IF ~MapOk(doc) THEN None
    ELSE Some([min |-> MapVal(doc, "min_log_level"), app |-> MapVal(doc, "app_ids"), ecu |-> MapVal(doc, "ecu_ids"), ctx |-> MapVal(doc, "context_ids"),
               appc |-> MapVal(doc, "app_id_count"), ctxc |-> MapVal(doc, "context_id_count")])
  ELSE
    IF ~SeqOk(doc) THEN None
    ELSE Some([min |-> SeqVal(doc, 1), app |-> SeqVal(doc, 2), ecu |-> SeqVal(doc, 3), ctx |-> SeqVal(doc, 4), appc |-> SeqVal(doc, 5), ctxc |-> SeqVal(doc, 6)])
\* ---- writing a configuration yields a document that loads to the same configuration (map form, all six fields)
IdsEntry(name, o) == IF IsSome(o) THEN [k |-> name, t |-> "list", n |-> 0, s |-> o[1]] ELSE [k |-> name, t |-> "null", n |-> 0, s |-> <<>>]
Written(cfg) == [form |-> "map", ent |-> <<
   IF IsSome(cfg.min) THEN [k |-> "min_log_level", t |-> "int", n |-> cfg.min[1], s |-> <<>>] ELSE [k |-> "min_log_level", t |-> "null", n |-> 0, s |-> <<>>],
   IdsEntry("app_ids", cfg.app), IdsEntry("ecu_ids", cfg.ecu), IdsEntry("context_ids", cfg.ctx),
   [k |-> "app_id_count", t |-> "int", n |-> cfg.appc, s |-> <<>>], [k |-> "context_id_count", t |-> "int", n |-> cfg.ctxc, s |-> <<>>]>>]
\* ---- the processed configuration: levels outside 1..6 mean "no level filtering", id lists become sets, counts are kept
SetOfIds(seq) == {seq[i] : i \in 1..Len(seq)}
Processed(cfg) == [min  |-> IF IsSome(cfg.min) /\ cfg.min[1] \in 1..6 THEN cfg.min ELSE None,
                   app  |-> IF IsSome(cfg.app) THEN Some(SetOfIds(cfg.app[1])) ELSE None,
                   ecu  |-> IF IsSome(cfg.ecu) THEN Some(SetOfIds(cfg.ecu[1])) ELSE None,
                   ctx  |-> IF IsSome(cfg.ctx) THEN Some(SetOfIds(cfg.ctx[1])) ELSE None,
                   appc |-> cfg.appc, ctxc |-> cfg.ctxc]
=============================================================================
