#!/usr/bin/env python3
"""Regenerates seeded/README.md (which check catches which seeded change) from seeded/*/meta.json and, if present, the matrix results."""
import glob, json, os
ROOT = os.path.dirname(os.path.abspath(__file__))
rows = []
for f in sorted(glob.glob(ROOT + "/seeded/*/meta.json")):
    m = json.load(open(f))
    m["_dir"] = os.path.basename(os.path.dirname(f))
    rows.append(m)
cross = {}
for f in glob.glob(ROOT + "/seeded/matrix_*.jsonl"):
    for l in open(f):
        r = json.loads(l)
        cross.setdefault(r["mutant"], {})[r["check"]] = r["rc"]
out = ["# Seeded changes", "",
       "Each directory holds one change to esrlabs/dlt-core written by an independent sub-agent (it saw the text of one property and a scratch",
       "worktree of /repo, nothing from /verif): `patch.diff`, the agent's demonstration (`seeded_demo_*.rs`, fails with the change, passes without)",
       "and `meta.json` (what was run, what the change needs in order to manifest). Every change compiles, passes the crate's own tests with",
       "default features and with `fibex,statistics,stream`, and was confirmed in a scratch worktree before it was kept. None is ever applied to /repo",
       "other than transiently (`git -C /repo apply` ... `git -C /repo checkout -- .`).", "",
       "| change | breaks | what it is | needs to manifest | own check (quick) | other checks that fire | note |", "|---|---|---|---|---|---|---|"]
for m in rows:
    own = "caught" if m.get("detected_by_own_check") else ("silent by design (see note)" if m.get("own_check_not_applicable") else "MISSED")
    others = sorted(c for c, rc in cross.get(m["_dir"], {}).items() if rc == 1 and c != m["property"])
    out.append("| %s | %s | %s | %s | %s | %s | %s |" % (m["_dir"], m["property"], m.get("what_the_change_is", ""), m.get("needs_to_manifest", ""), own, ", ".join(others), m.get("note", "")))
open(ROOT + "/seeded/README.md", "w").write("\n".join(out) + "\n")
print(len(rows), "changes")
