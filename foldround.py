#!/usr/bin/env python3
"""foldround.py <first.jsonl> <after.jsonl|-> <notes.json|-> - fold the results of matrix.py runs into seeded/<id>/meta.json.
first: the evaluation with the machinery as it was when the changes arrived; after: re-evaluations after strengthening (last line
per change wins); notes: {change id: text} for changes that were not reported at first."""
import json, os, sys
ROOT = os.path.dirname(os.path.abspath(__file__))
first, after, notes = {}, {}, {}
for l in open(sys.argv[1]):
    r = json.loads(l); first[(r["mutant"], r["check"])] = r
if sys.argv[2] != "-" and os.path.exists(sys.argv[2]):
    for l in open(sys.argv[2]):
        r = json.loads(l)
        if r["check"] == r["mutant"][:3]:
            after[(r["mutant"], r["check"])] = r
if sys.argv[3] != "-":
    notes = json.load(open(sys.argv[3]))
n = 0
for (mut, chk), r in first.items():
    p = ROOT + "/seeded/%s/meta.json" % mut
    m = json.load(open(p))
    fin = after.get((mut, chk), r)
    m["checks_quick"] = {chk: {"rc": fin["rc"], "summary": fin["summary"][:400], "wall_s": fin["wall"]}}
    m["first_run"] = {"rc": r["rc"], "summary": r["summary"][:300]}
    m["detected_by_own_check"] = fin["rc"] == 1
    if mut in notes:
        m["note"] = notes[mut]
    m["ran"] = ["cargo test --workspace --no-fail-fast --offline (with change; and with --features fibex,statistics,stream)",
                "cargo test --offline --test <demo> --features fibex,statistics,stream (with and without change)",
                "python3 matrix.py <lane> %s:%s  (applies patch.diff to a scratch clone of /repo, runs ./check %s with VERIF_REPO pointing at it)" % (mut, chk, chk)]
    json.dump(m, open(p, "w"), indent=1); n += 1
print(n, "folded")
